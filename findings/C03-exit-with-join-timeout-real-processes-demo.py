"""pool exit with join_timeout: two of three workers have retired (quota 1, plain FunctorPool: nobody replaces them), the work
queue holds one item: the third blocking put(None) of the old __exit__ never returns. Exit 0: left the pool; 1: hang."""
import multiprocessing as mp, os, signal, subprocess, sys, math

SCEN = r'''
import math, sys
from multiprocessing import get_context
from windpyutils.parallel.own_proc_pools import FunctorPool, FunctorWorker
class W(FunctorWorker):
    def __call__(self, x):
        return x * 2
ctx = get_context("fork")
ws = [W(1), W(1), W(math.inf)]
with FunctorPool(ws, ctx, work_queue_maxsize=1, join_timeout=3) as pool:
    pool.until_all_ready()
    out = list(pool.imap(range(6)))
    assert out == [x * 2 for x in range(6)], out
    import time; time.sleep(1.0)   # the two quota-1 workers are gone by now
print("LEFT")
'''
p = subprocess.Popen([sys.executable, "-c", SCEN], start_new_session=True, stdout=subprocess.PIPE, text=True)
try:
    out, _ = p.communicate(timeout=60)
    ok = "LEFT" in out
except subprocess.TimeoutExpired:
    ok = False
finally:
    try: os.killpg(p.pid, signal.SIGKILL)
    except ProcessLookupError: pass
print("OK" if ok else "HANG: the pool context could not be left")
sys.exit(0 if ok else 1)
