#!/usr/bin/env python3
"""Run the registered checks against the seeded changes kept under /verif/seeded/<name>/ (patch.diff, demo, meta.json).

    tools/seeded.py [name ...] [--tier quick|thorough] [--all-checks]

Each patch is applied to a scratch git worktree of /repo (outside /repo and /verif), the check of the property named in
meta.json (or every check with --all-checks) is run against it through WPU_REPO, and the worktree is removed again.
Also (re-)confirms the demonstration: it must fail with the change and pass without.
"""
import json
import os
import shutil
import subprocess
import sys
import tempfile

ROOT = os.path.dirname(os.path.dirname(os.path.abspath(__file__)))
REPO = "/repo"


def sh(cmd, **kw):
    return subprocess.run(cmd, capture_output=True, text=True, **kw)


def run_demo(meta, sdir, tree):
    demo = meta.get("demo_file") or next((f for f in sorted(os.listdir(sdir)) if f.startswith("demo")), None)
    if not demo:
        return None
    env = dict(os.environ, PYTHONPATH=tree, PYTHONUTF8="1")
    try:
        r = subprocess.run(["/venv/bin/python", "-B", os.path.join(sdir, demo)], env=env, cwd=tree, capture_output=True, text=True,
                           timeout=600, start_new_session=True)
        return r.returncode
    except subprocess.TimeoutExpired:
        return "timeout"


def main():
    args = sys.argv[1:]
    tier = "quick"
    allc = False
    outp = None
    rows = []
    names = []
    i = 0
    while i < len(args):
        if args[i] == "--tier":
            tier = args[i + 1]
            i += 2
        elif args[i] == "--all-checks":
            allc = True
            i += 1
        elif args[i] == "--out":
            outp = args[i + 1]
            i += 2
        else:
            names.append(args[i])
            i += 1
    sroot = os.path.join(ROOT, "seeded")
    if "--from-meta" in names:
        # compose the table from the confirmations that earlier runs of this tool stored in seeded/<name>/meta.json
        names = sorted(d for d in os.listdir(sroot) if os.path.isdir(os.path.join(sroot, d)))
        missed = 0
        with open(outp or os.path.join(ROOT, "SEEDED.md"), "w") as f:
            f.write("# Seeded changes (written by independent sub-agents) against the registered checks, quick tier, corpus disabled\n\n")
            f.write("Composed by `tools/seeded.py --from-meta` from the per-change confirmations in `seeded/<name>/meta.json` (each written by a run of "
                    "`VF_NO_CORPUS=1 tools/seeded.py <name>`).\n\n")
            f.write("| seeded change | property | what was changed | needs | demo exit clean/seeded | check | first signature reported |\n|---|---|---|---|---|---|---|\n")
            for name in names:
                meta = json.load(open(os.path.join(sroot, name, "meta.json")))
                c = meta.get("confirmed_by_me") or {}
                status = c.get("check_result", "?")
                missed += status != "caught"
                f.write("| %s | %s | %s | %s | %s / %s | %s | %s |\n" % (
                    name, meta["property"], str(meta.get("summary", "")).replace("|", "/").replace("\n", " ")[:300],
                    str(meta.get("needs", "")).replace("|", "/").replace("\n", " ")[:300], c.get("demo_exit_clean_tree", "?"), c.get("demo_exit_with_change", "?"),
                    status, str(c.get("first_signature", "")).replace("|", "/")))
            f.write("\n%d seeded changes, %d not caught by their property's check\n" % (len(names), missed))
        print("%d seeded changes, %d not caught (from meta)" % (len(names), missed))
        return 0
    if not names:
        names = sorted(d for d in os.listdir(sroot) if os.path.isdir(os.path.join(sroot, d)))
    bad = 0
    for name in names:
        sdir = os.path.join(sroot, name)
        meta = json.load(open(os.path.join(sdir, "meta.json")))
        tmp = tempfile.mkdtemp(prefix="wpu-seed-")
        tree = os.path.join(tmp, "tree")
        try:
            r = sh(["git", "-C", REPO, "worktree", "add", "-q", "--detach", tree, "HEAD"])
            if r.returncode:
                print(name, "cannot create worktree:", r.stderr.strip())
                bad += 1
                continue
            clean_demo = run_demo(meta, sdir, tree)
            r = sh(["git", "-C", tree, "apply", os.path.join(sdir, "patch.diff")])
            if r.returncode:
                print("%-28s PATCH-DOES-NOT-APPLY %s" % (name, r.stderr.strip()[:200]))
                bad += 1
                continue
            seeded_demo = run_demo(meta, sdir, tree)
            props = [meta["property"]] if not allc else ["C%02d" % k for k in range(1, 21)]
            res = []
            for pid in props:
                env = dict(os.environ, WPU_REPO=tree)
                c = sh([os.path.join(ROOT, "check"), pid, "--tier", tier, "--no-evidence"], env=env)
                out = c.stdout + c.stderr
                first = next((l.strip() for l in out.splitlines() if l.startswith("  ")), "")
                status = "caught" if c.returncode == 1 and "VIOLATION" in out else "quiet" if c.returncode == 0 else "harness-error(%d)" % c.returncode
                res.append((pid, status, first[:170]))
                if pid == meta["property"] and status != "caught":
                    bad += 1
            print("%-28s demo: clean=%s seeded=%s | %s" % (name, clean_demo, seeded_demo, "; ".join("%s %s %s" % x for x in res)), flush=True)
            rows.append((name, meta, clean_demo, seeded_demo, res))
            own = next((r for r in res if r[0] == meta["property"]), None)
            if own is not None and not allc:
                meta["confirmed_by_me"] = dict(meta.get("confirmed_by_me") or {}, **{
                    "how": "tools/seeded.py: patch applied to a scratch git worktree of /repo HEAD (removed afterwards); demo run on the clean worktree "
                           "and on the patched one; ./check %s --tier %s with WPU_REPO=<worktree>%s" % (meta["property"], tier, " and VF_NO_CORPUS=1 (generated search only)" if os.environ.get("VF_NO_CORPUS") else ""),
                    "demo_exit_clean_tree": str(clean_demo), "demo_exit_with_change": str(seeded_demo), "check_result": own[1],
                    "first_signature": own[2].split(":")[0]})
                json.dump(meta, open(os.path.join(sdir, "meta.json"), "w"), indent=1)
        finally:
            sh(["git", "-C", REPO, "worktree", "remove", "--force", tree])
            shutil.rmtree(tmp, ignore_errors=True)
    print("%d seeded changes, %d not caught by their property's check" % (len(names), bad))
    if outp:
        with open(outp, "w") as f:
            f.write("# Seeded changes (written by independent sub-agents) against the registered checks, %s tier%s\n\n" % (tier, ", corpus disabled" if os.environ.get("VF_NO_CORPUS") else ""))
            f.write("| seeded change | property | what was changed | needs | demo exit clean/seeded | check | first signature reported |\n|---|---|---|---|---|---|---|\n")
            for name, meta, cd, sd, res in rows:
                for pid, status, first in res:
                    f.write("| %s | %s | %s | %s | %s / %s | %s | %s |\n" % (name, pid, str(meta.get("summary", "")).replace("|", "/")[:300], str(meta.get("needs", "")).replace("|", "/")[:300],
                                                                       cd, sd, status, first.split(":")[0].replace("|", "/")))
            f.write("\n%d seeded changes, %d not caught by their property's check\n" % (len(names), bad))
    return 1 if bad else 0


if __name__ == "__main__":
    sys.exit(main())
