#!/usr/bin/env python3
"""Sensitivity round: apply each deliberately broken variant to a scratch copy of the repository (outside /repo and
/verif), run the quick tier of the named check against it, expect a VIOLATION, remove the copy.

    tools/sens.py [ID ...] [--only name-substring] [--jobs N]

Variants live in tools/mutants/<ID>.py as MUTANTS = [(name, file, old, new, expect)], expect in {"caught", "quiet"}
("quiet": the variant does not violate the property; the check must stay silent).
"""
import importlib.util
import os
import shutil
import subprocess
import sys
import tempfile
import concurrent.futures as cf

ROOT = os.path.dirname(os.path.dirname(os.path.abspath(__file__)))
REPO = "/repo"


def load(pid):
    path = os.path.join(ROOT, "tools", "mutants", "%s.py" % pid)
    if not os.path.exists(path):
        return []
    spec = importlib.util.spec_from_file_location("mut_" + pid, path)
    m = importlib.util.module_from_spec(spec)
    spec.loader.exec_module(m)
    return m.MUTANTS


def run_one(pid, mut, shards):
    name, rel, old, new, expect = mut
    tmp = tempfile.mkdtemp(prefix="wpu-mut-")
    try:
        shutil.copytree(os.path.join(REPO, "windpyutils"), os.path.join(tmp, "windpyutils"),
                        ignore=shutil.ignore_patterns("__pycache__"))
        p = os.path.join(tmp, rel)
        s = open(p).read()
        if s.count(old) < 1:
            return (pid, name, "MUTANT-DOES-NOT-APPLY", "")
        s = s.replace(old, new, 1)
        open(p, "w").write(s)
        env = dict(os.environ, WPU_REPO=tmp, VF_SHARDS=str(shards))
        r = subprocess.run([os.path.join(ROOT, "check"), pid, "--tier", "quick", "--no-evidence", "--shards", str(shards)],
                           env=env, capture_output=True, text=True, timeout=3600)
        out = r.stdout + r.stderr
        got = "caught" if (r.returncode == 1 and "VIOLATION" in out) else "quiet" if r.returncode == 0 else "harness-error(%d)" % r.returncode
        first = next((l.strip() for l in out.splitlines() if l.startswith("  ")), "")
        tail = [l for l in out.splitlines() if l.startswith(pid + " tier=")]
        return (pid, name, ("OK " if got == expect else "UNEXPECTED ") + got, (first[:150] + " | " + (tail[0].split("wall=")[-1] if tail else "")))
    finally:
        shutil.rmtree(tmp, ignore_errors=True)


def main():
    args = sys.argv[1:]
    only = None
    jobs = 3
    outp = None
    ids = []
    i = 0
    while i < len(args):
        if args[i] == "--only":
            only = args[i + 1]
            i += 2
        elif args[i] == "--jobs":
            jobs = int(args[i + 1])
            i += 2
        elif args[i] == "--out":
            outp = args[i + 1]
            i += 2
        else:
            ids.append(args[i].upper())
            i += 1
    if not ids:
        ids = sorted(f[:-3] for f in os.listdir(os.path.join(ROOT, "tools", "mutants")) if f.endswith(".py"))
    work = []
    for pid in ids:
        for mut in load(pid):
            if only and only not in mut[0]:
                continue
            work.append((pid, mut))
    shards = max(2, 14 // jobs)
    bad = 0
    rows = []
    with cf.ThreadPoolExecutor(jobs) as ex:
        for pid, name, res, info in ex.map(lambda w: run_one(w[0], w[1], shards), work):
            print("%-4s %-46s %-22s %s" % (pid, name, res, info), flush=True)
            rows.append((pid, name, res, info))
            if not res.startswith("OK"):
                bad += 1
    print("%d variants, %d unexpected" % (len(work), bad))
    if outp:
        with open(outp, "w") as f:
            f.write("# Sensitivity round (tools/sens.py): deliberately broken variants on scratch copies, quick tier\n\n")
            f.write("`caught` = the check reported a VIOLATION; `quiet` = exit 0; the expectation is in tools/mutants/<ID>.py "
                    "(`quiet` is expected for variants that do not violate the property).\n\n")
            f.write("| property | variant | result | first signature reported |\n|---|---|---|---|\n")
            for pid, name, res, info in rows:
                sig = info.split(":")[0].strip() if res.endswith("caught") else ""
                f.write("| %s | %s | %s | %s |\n" % (pid, name, res, sig.replace("|", "/")))
            f.write("\n%d variants, %d unexpected\n" % (len(rows), bad))
    return 1 if bad else 0


if __name__ == "__main__":
    sys.exit(main())
