#!/bin/bash
# quietness on the unchanged tree: every check at several VERIF_SEED values (and once with a random hash seed) must exit 0
cd "$(dirname "$0")/.."
seeds="${*:-2 3 4 5 11}"
bad=0
for s in $seeds; do
  for i in 01 02 03 04 05 06 07 08 09 10 11 12 13 14 15 16 17 18 19 20; do
    out=$(VERIF_SEED=$s ./check C$i --tier quick --no-evidence 2>&1); rc=$?
    echo "seed=$s C$i rc=$rc $(echo "$out" | grep -E "^C$i tier" | sed 's/.*evaluations/evaluations/')"
    if [ $rc -ne 0 ]; then bad=$((bad+1)); echo "$out" | head -5; fi
  done
done
for i in 01 02 03 04 05 06 07 08 09 10 11 12 13 14 15 16 17 18 19 20; do
  out=$(PYTHONHASHSEED=random VERIF_SEED=1 ./check C$i --tier quick --no-evidence 2>&1); rc=$?
  echo "hashseed=random C$i rc=$rc"
  if [ $rc -ne 0 ]; then bad=$((bad+1)); echo "$out" | head -5; fi
done
echo "non-zero exits: $bad"
