#!/usr/bin/env python3
"""prints the as-built budget table (parts and example counts per tier) for DESIGN.md"""
import importlib, os, sys
sys.path.insert(0, os.path.dirname(os.path.dirname(os.path.abspath(__file__))))
sys.path.insert(0, os.environ.get("WPU_REPO", "/repo"))
print("| property | enumerated parts (E5) | drawn parts: examples quick / thorough |")
print("|---|---|---|")
for i in range(1, 21):
    m = importlib.import_module("vf.props.c%02d" % i)
    q = {p[0]: p[2] for p in m.strategies("quick")}
    t = {p[0]: p[2] for p in m.strategies("thorough")}
    en_q = [e[0] for e in m.enumerations("quick")]
    en_t = [e[0] for e in m.enumerations("thorough")]
    en = "; ".join(en_q) + ("" if en_q == en_t else " (thorough: " + "; ".join(en_t) + ")")
    print("| C%02d | %s | %s |" % (i, en or "-", "; ".join("%s: %s / %s" % (k, q[k], t.get(k)) for k in q)))
