#!/usr/bin/env python3
"""Writes /verif/MANIFEST.json from the table below (single source of truth for levels and commands)."""
import json
import os

ROOT = os.path.dirname(os.path.dirname(os.path.abspath(__file__)))

# id -> (engine, category, technique, level text, level note, design ref)
E2NOTE = 'Stand-ins (SimQueue, SimPipeQueue, SimLock, SimEvent, ...) are trusted to have the semantics of the real primitives; worker processes are threads on fork copies; preemption at source-line and primitive-operation granularity.'

CHECKS = {
    "C18": ("E3", "exploration",
            "real forked reader processes advanced one seek/readline at a time by a Hypothesis-generated schedule; value oracle against reference lines",
            "The object is opened in the parent and used by 1..4 forked children, optionally the parent itself and a grandchild; the "
            "controller grants single low-level seek/readline steps according to a generated schedule (round-robin after it is "
            "exhausted), so seeks of one process fall between seek and readline of another. Programmes contain index reads, fresh iterations, slices and runs of up to 320 consecutive keys (longer than a read-ahead buffer). Every value read anywhere must equal the "
            "reference line; files up to 200 KB so that private user-space buffers cannot mask interference.",
            "Schedule control stops at Python-level seek/readline calls on the handle; real fork, real descriptors.",
            "DESIGN.md §3 E3, §4 C18"),
    "C01": ("E2+E5", "exploration",
            "the real pool code under a harness-owned scheduler: Hypothesis-generated configurations, inputs and schedules (deviation-bounded, PCT, seeded walk) + bounded-exhaustive schedule sweeps; value oracle and end-of-call queue inspection; ddmin on the schedule",
            "The unmodified FunctorPool/FactoryFunctorPool code runs with every primitive operation and every source line as a "
            "preemption point; schedules are generated data. Each fully consumed call must equal map(f, data) (multiset + in-chunk order "
            "for imap_unordered), no exception may escape, no payload may remain in any queue. All schedules with <=1 (quick) / <=2 "
            "(thorough) deviations are enumerated for five small configurations, and all schedules with <=2 deviations placed right before "
            "accesses to the pool object's attributes (preemption inside a source line) for two more; beyond that sampled. A few cases run on real processes.",
            E2NOTE, "DESIGN.md §3 E2, §4 C01"),
    "C02": ("E2+E5", "exploration",
            "the real pool code under a harness-owned scheduler; 'hang' decided as 'no runnable task while the consumer has not left the pool' (no clock); generated late-input timings, flow-control configurations and schedules; bounded-exhaustive schedule sweeps",
            "Termination is decided as deadlock-freedom of the controlled system over generated timings of the input iterator "
            "(items / StopIteration arbitrarily late), queue bounds and schedules; complete up to 1 (quick) / 2 (thorough) deviations "
            "for three small configurations and up to 2 deviations at shared-attribute accesses for two more, sampled beyond; late-input cases also run on real processes under a quiescence watchdog.",
            E2NOTE + " Liveness = deadlock-freedom (the code has no retry loops except the modelled timed join).", "DESIGN.md §3 E2, §4 C02"),
    "C03": ("E2+E5", "exploration",
            "call histories on one pool (quota / replacement included) under the harness-owned scheduler; per-call value oracle with call-tagged payloads, deadlock oracle, between-call queue inspection; bounded-exhaustive schedule sweeps",
            "Histories of 2..5 calls on one pool instance with quotas 1..3/inf; payloads are tagged with the call number so leakage is "
            "recognisable; every call is judged by C01's and C02's oracles. All schedules with <=1 deviation (thinned <=2 in "
            "thorough for two of them) are enumerated for four small configurations, and all schedules with <=2 deviations at shared-attribute accesses for two multi-call configurations; quota histories also run on real processes.",
            E2NOTE, "DESIGN.md §3 E2, §4 C03"),
    "C04": ("E1+E2", "fault_enumeration",
            "fault-position enumeration on the real BaseFunctorWorker.run (every begin/functor-item/end fault for each Hypothesis-generated workload) + pool-level lifecycle oracle under the harness-owned scheduler",
            "Worker level: for each generated workload every fault position is executed and the event log, results, quota and replace "
            "request are checked. Pool level: instrumented workers in generated call histories and schedules; begin/end once each, "
            "until_all_ready only after begin completed, chunks per worker <= quota, no worker (replaced ones included, slow end() generated) still running at the moment the pool context is left, pool exit protocol completes; the same lifecycle facts are observed on real processes for a few cases.",
            "Harness queues have queue.Queue semantics for get/put/put(block=False). " + E2NOTE, "DESIGN.md §4 C04"),
    "C05": ("E2+E5", "exploration",
            "FunctorMap / mul_p_map under the harness-owned scheduler with pipe-queue stand-ins (in-flight delivery as scheduler step); generated inputs, call sequences and schedules; bounded-exhaustive schedule sweeps",
            "Every call must yield/return map(f, data) in order, terminate (deadlock oracle), leave nothing in the results queue, and "
            "all workers must be finished after exit; repeated calls on one FunctorMap (consumed to exhaustion or by taking exactly len(data) results) and a bounded pipe capacity (large payloads) included.",
            E2NOTE, "DESIGN.md §3 E2, §4 C05"),
    "C14": ("E1+E2", "exploration",
            "sequential: Hypothesis-generated store/read/flush histories with real manager and forked writer processes against a dict model; concurrent: writers/readers as scheduler tasks on fork copies with generated schedules and a <=1-deviation sweep",
            "Sequential histories (gaps, duplicates, pre-sized index, reopen, flush) against a reference dict; concurrent runs decide "
            "'a read returns exactly the stored text or IndexError (only if the store had not returned)' and 'a concurrent iteration yields complete texts in id order including every id stored before it started' over generated interleavings at "
            "line granularity inside storage.py; a reality part runs real writer and reader processes.",
            "Sequential part uses real multiprocessing; concurrent part: " + E2NOTE, "DESIGN.md §4 C14"),
    "C20": ("E1", "exploration",
            "Hypothesis-generated pool bodies with every fault position enumerated; real files in scratch directories; forked children for multi_proc pools",
            "For every generated create/remove/flush body the with-block is executed without fault and with an exception raised at every "
            "position; listing, disk content, exception propagation, emptiness after flush/exit and closed handles (FilePool) are checked; parent and children also remove/create on one multi_proc pool concurrently under a generated cross-process schedule, and FilePools with an unopenable path must leave no descriptor open.",
            "Files are created only through the pool; multi_proc children are multiprocessing (fork) processes.", "DESIGN.md §4 C20"),
    "C09": ("E1", "exploration",
            "Hypothesis-generated operation histories against builtin set/dict as reference model, including foreign-typed probes",
            "SortedSet/SortedMap are built from generated initial collections (empty, unsorted, repeats, dict/pairs/generator) and driven "
            "by generated histories; after every step iteration order (strictly ascending), content, length, membership, lookup and "
            "KeyError behaviour are compared with a builtin set/dict. Sampled, not exhaustive.",
            "Builtin set/dict are the reference; numeric keys only (ints, floats, bools), no NaN content.",
            "DESIGN.md §4 C09"),
    "C10": ("E1+E5", "exploration",
            "bounded-exhaustive enumeration of span-list pairs x 16 relation pairs plus Hypothesis-drawn larger pairs, against a brute-force membership model written from the statement",
            "All pairs of span lists with <=2 spans over a 4-point grid, with all 16 relation combinations, are enumerated and all 13 "
            "operators compared with brute-force evaluation of their membership definitions; larger/float-valued pairs are drawn.",
            "Trusts the brute-force definitions in vf/props/c10.py.",
            "DESIGN.md §4 C10"),
    "C11": ("E1", "exploration",
            "Hypothesis-generated file contents, index sources and read programmes (interleaved iterators and random access) against a Python list of the file's lines",
            "Generated contents rich in corner cases (CR, multi-byte, long lines, unterminated last line) are written to real files and read "
            "through all 8 variants with generated programmes of index/slice/iterable/iteration operations, several live iterators "
            "interleaved with random access, and subset/permutation indexes; every result is compared with list semantics.",
            "Real file I/O in a scratch directory; PYTHONUTF8=1; memory-mapped variants not given empty files.",
            "DESIGN.md §4 C11"),
    "C12": ("E1", "exploration",
            "Hypothesis-generated edit histories on the four mutable line-file variants against a Python list; byte-exact save oracle; reopen round trip; source hash",
            "Every MutableSequence operation named in the statement is driven by generated histories with in- and out-of-range indices; "
            "after each step the view equals a Python list, exceptions have parity, save() bytes are exact for 5 line endings, a saved "
            "file reopened through both read-only classes equals the list, dirty follows the statement, the source's SHA-256 is unchanged.",
            "Line contents without line breaks (statement's domain).",
            "DESIGN.md §4 C12"),
    "C13": ("E1", "exploration",
            "Hypothesis-generated records (recursive JSON values; CSV/TSV fields with delimiters, quotes, blanks) through save/load round trips and record-file edit histories",
            "Round trip load(save(r))==r and single-line-ness for 8 record classes used alternately (shared writer buffer), record files "
            "read by index/slice/iteration through both variants, mutable record files edited, saved and reopened.",
            "Field values restricted to the statement's domains (finite floats, no line breaks in CSV/TSV strings).",
            "DESIGN.md §4 C13"),
    "C15": ("E1+E5", "exploration",
            "bounded-exhaustive enumeration (all arrival permutations x drain masks; all put/clear sequences) plus Hypothesis-drawn scripts against the longest-complete-prefix definition",
            "All permutations of n<=6 (7 thorough) arrivals with all drain masks and all put/clear sequences of length<=8 for capacities "
            "1..4 are enumerated; scripts with overwrite, already-emitted positions, flush/clear at any point are drawn. Emitted "
            "sequence, waiting_for, len, printed output and ring content are compared after every step.",
            "Trusts the small models in vf/props/c15.py written from the docstrings.",
            "DESIGN.md §4 C15"),
    "C16": ("E1+E5", "exploration",
            "bounded-exhaustive enumeration of interval sets x probe keys plus Hypothesis-drawn maps against linear-scan lookup and pairwise-disjointness",
            "All ordered selections of <=3 intervals over a 6-point grid (invalid ones included) with all probes (ends, midpoints, outside, "
            "+-inf) are enumerated; larger maps over ints and dyadic floats are drawn.",
            "Trusts brute force over pairs / linear scan.",
            "DESIGN.md §4 C16"),
    "C17": ("E1+E5", "exploration",
            "bounded-exhaustive enumeration of score vectors x intervals plus Hypothesis-drawn inputs against itertools.combinations brute force; fuel-bounded consumption",
            "sorted_combinations output is compared as a multiset with all index combinations, keys non-decreasing, yielded key exact; "
            "min-combination search equals the brute-force minimal-sum set. All score vectors in {0..3}^n, n<=4, with all intervals are "
            "enumerated; up to n=9 drawn.",
            "Monotone keys only (documented precondition).",
            "DESIGN.md §4 C17"),
    "C06": ("E1+E5", "exploration",
            "Hypothesis-generated operation histories against a candidate-set reference model, line-count fuel as termination oracle, bounded-exhaustive short histories",
            "Generated histories of all mapping operations are run against the real LRUCache and a non-deterministic "
            "reference (content + admissible recency orders); size bound, values, exact LRU victim, iteration order, KeyError "
            "parity and termination (fuel, no clock) are checked after every operation. All short histories over 3 keys for "
            "capacities 1..2 are enumerated. Sampled beyond that.",
            "Trusts the reference model in vf/props/cachemodel.py; accepts every behaviour the statement leaves open "
            "(membership counting or not, any recency order after values/items/==).",
            "DESIGN.md §4 C06"),
    "C07": ("E1+E5", "exploration",
            "Hypothesis-generated operation histories against a candidate-set reference model (use counts), fuel oracle, bounded-exhaustive short histories",
            "As C06 for LFUCache: latest stored value returned, exactly one victim with minimal use count among admissible "
            "count models, iteration non-decreasing in count, views agree with content and terminate.",
            "Trusts the reference model in vf/props/cachemodel.py; ties among victims and count perturbation by views "
            "(unchanged or +1 for every present key) are admissible.",
            "DESIGN.md §4 C07"),
    "C08": ("E1+E5", "exploration",
            "Hypothesis-generated operation histories compared by node identity with a Python list; link/len invariants after every step; bounded-exhaustive short histories; long runs of equal payloads",
            "Every mutator of DoublyLinkedList is driven by generated histories (operands resolved modulo the length), "
            "after each step forward and backward traversal, len(), head/tail and all links are compared with a list of "
            "node objects by identity. Lists of 400..3000 equal payloads are operated on deep nodes. All histories of "
            "length<=3 on <=3 equal payloads are enumerated.",
            "Only nodes belonging to the list are passed (as the statement says).",
            "DESIGN.md §4 C08"),
    "C19": ("E5+E1", "exploration",
            "bounded-exhaustive enumeration + Hypothesis-generated inputs against brute-force reference definitions",
            "Every integer 1..3999, every needle/haystack pair over a 2-letter alphabet up to (4,7), every (n,batch_size) "
            "up to (12,14) and every list up to length 6 over 3 values are enumerated completely and compared with "
            "independent brute-force definitions; longer inputs are drawn by Hypothesis. Exhaustive only on those "
            "sub-domains, sampled beyond.",
            "Trusts the brute-force references in vf/props/c19.py (digit-table numerals, insertion sort, window scan, Counter).",
            "DESIGN.md §4 C19"),
}

NOT_YET = {}


def main():
    props = [json.loads(l) for l in open(os.path.join(ROOT, "properties.jsonl"))]
    checks = []
    na = []
    for p in props:
        pid = p["id"]
        if pid in CHECKS:
            eng, cat, tech, text, note, ref = CHECKS[pid]
            checks.append({
                "property_id": pid,
                "quick_cmd": "./check %s --tier quick" % pid,
                "thorough_cmd": "./check %s --tier thorough" % pid,
                "evidence_file": "evidence/%s.json" % pid,
                "replay_cmd_template": "./check %s --replay {path}" % pid,
                "engine": eng,
                "level_claimed": {"category": cat, "text": text, "design_ref": ref},
                "level_note": note,
                "technique": tech,
            })
        else:
            na.append({"property_id": pid,
                       "reason": NOT_YET.get(pid, "check designed (DESIGN.md §4) but not implemented yet in this commit; "
                                                  "not claimed until its check is registered")})
    man = {
        "version": 1,
        "setup_cmd": "/venv/bin/python -c 'import hypothesis' 2>/dev/null || /venv/bin/pip install --no-index "
                     "--find-links /opt/veriftools/wheels hypothesis",
        "hooks": {
            "guard": "WINDPYUTILS_VERIF",
            "enable": "no source hooks: all instrumentation is done from the harness (constructor context argument, "
                      "module-namespace patching, trace functions); checks import /repo's working tree via PYTHONPATH",
            "baseline_off_cmd": "cd /repo && /venv/bin/python -m pytest -ra -q -p no:cacheprovider --timeout=900 "
                                "--continue-on-collection-errors",
            "source_commits": [],
            "add_only": True,
        },
        "engines": [
            {"name": "E1", "path": "vf/common.py", "serves_properties": ["C06", "C07", "C08", "C09", "C10", "C11", "C12", "C13", "C14", "C15", "C16", "C17", "C19", "C20"],
             "kind_free_text": "history interpreter with reference models, driven by Hypothesis (sharded, seeded)"},
            {"name": "E2", "path": "vf/sched", "serves_properties": ["C01", "C02", "C03", "C04", "C05", "C14"],
             "kind_free_text": "the real pool/storage code under a harness-owned scheduler; schedules are generated data"},
            {"name": "E3", "path": "vf/xproc.py", "serves_properties": ["C18", "C20"],
             "kind_free_text": "real forked processes advanced one seek/readline at a time by a generated schedule"},
            {"name": "E5", "path": "vf/props", "serves_properties": ["C06", "C08", "C10", "C15", "C16", "C17", "C19"],
             "kind_free_text": "bounded-exhaustive enumerators over finite sub-domains, same oracles"},
        ],
        "checks": checks,
        "not_applicable": na,
        "notes": "Technique family: property-based testing and fuzzing (Hypothesis generators + bounded-exhaustive "
                 "enumeration + harness-owned schedules). See DESIGN.md.",
    }
    with open(os.path.join(ROOT, "MANIFEST.json"), "w") as f:
        json.dump(man, f, indent=1)
    print("MANIFEST.json: %d checks, %d not claimed" % (len(checks), len(na)))


if __name__ == "__main__":
    main()
