#!/usr/bin/env python3
"""Writes /verif/MANIFEST.json from the table below (single source of truth for levels and commands)."""
import json
import os

ROOT = os.path.dirname(os.path.dirname(os.path.abspath(__file__)))

# id -> (engine, category, technique, level text, level note, design ref)
CHECKS = {
    "C06": ("E1+E5", "exploration",
            "Hypothesis-generated operation histories against a candidate-set reference model, line-count fuel as termination oracle, bounded-exhaustive short histories",
            "Generated histories of all mapping operations are run against the real LRUCache and a non-deterministic "
            "reference (content + admissible recency orders); size bound, values, exact LRU victim, iteration order, KeyError "
            "parity and termination (fuel, no clock) are checked after every operation. All short histories over 3 keys for "
            "capacities 1..2 are enumerated. Sampled beyond that.",
            "Trusts the reference model in vf/props/cachemodel.py; accepts every behaviour the statement leaves open "
            "(membership counting or not, any recency order after values/items/==).",
            "DESIGN.md §4 C06"),
    "C07": ("E1+E5", "exploration",
            "Hypothesis-generated operation histories against a candidate-set reference model (use counts), fuel oracle, bounded-exhaustive short histories",
            "As C06 for LFUCache: latest stored value returned, exactly one victim with minimal use count among admissible "
            "count models, iteration non-decreasing in count, views agree with content and terminate.",
            "Trusts the reference model in vf/props/cachemodel.py; ties among victims and count perturbation by views "
            "(unchanged or +1 for every present key) are admissible.",
            "DESIGN.md §4 C07"),
    "C08": ("E1+E5", "exploration",
            "Hypothesis-generated operation histories compared by node identity with a Python list; link/len invariants after every step; bounded-exhaustive short histories; long runs of equal payloads",
            "Every mutator of DoublyLinkedList is driven by generated histories (operands resolved modulo the length), "
            "after each step forward and backward traversal, len(), head/tail and all links are compared with a list of "
            "node objects by identity. Lists of 400..3000 equal payloads are operated on deep nodes. All histories of "
            "length<=3 on <=3 equal payloads are enumerated.",
            "Only nodes belonging to the list are passed (as the statement says).",
            "DESIGN.md §4 C08"),
    "C19": ("E5+E1", "exploration",
            "bounded-exhaustive enumeration + Hypothesis-generated inputs against brute-force reference definitions",
            "Every integer 1..3999, every needle/haystack pair over a 2-letter alphabet up to (4,7), every (n,batch_size) "
            "up to (12,14) and every list up to length 6 over 3 values are enumerated completely and compared with "
            "independent brute-force definitions; longer inputs are drawn by Hypothesis. Exhaustive only on those "
            "sub-domains, sampled beyond.",
            "Trusts the brute-force references in vf/props/c19.py (digit-table numerals, insertion sort, window scan, Counter).",
            "DESIGN.md §4 C19"),
}

NOT_YET = {}


def main():
    props = [json.loads(l) for l in open(os.path.join(ROOT, "properties.jsonl"))]
    checks = []
    na = []
    for p in props:
        pid = p["id"]
        if pid in CHECKS:
            eng, cat, tech, text, note, ref = CHECKS[pid]
            checks.append({
                "property_id": pid,
                "quick_cmd": "./check %s --tier quick" % pid,
                "thorough_cmd": "./check %s --tier thorough" % pid,
                "evidence_file": "evidence/%s.json" % pid,
                "replay_cmd_template": "./check %s --replay {path}" % pid,
                "engine": eng,
                "level_claimed": {"category": cat, "text": text, "design_ref": ref},
                "level_note": note,
                "technique": tech,
            })
        else:
            na.append({"property_id": pid,
                       "reason": NOT_YET.get(pid, "check designed (DESIGN.md §4) but not implemented yet in this commit; "
                                                  "not claimed until its check is registered")})
    man = {
        "version": 1,
        "setup_cmd": "/venv/bin/python -c 'import hypothesis' 2>/dev/null || /venv/bin/pip install --no-index "
                     "--find-links /opt/veriftools/wheels hypothesis",
        "hooks": {
            "guard": "WINDPYUTILS_VERIF",
            "enable": "no source hooks: all instrumentation is done from the harness (constructor context argument, "
                      "module-namespace patching, trace functions); checks import /repo's working tree via PYTHONPATH",
            "baseline_off_cmd": "cd /repo && /venv/bin/python -m pytest -ra -q -p no:cacheprovider --timeout=900 "
                                "--continue-on-collection-errors",
            "source_commits": [],
            "add_only": True,
        },
        "engines": [
            {"name": "E1", "path": "vf/common.py", "serves_properties": ["C06", "C07", "C08", "C09", "C10", "C11", "C12", "C13", "C14", "C15", "C16", "C17", "C19", "C20"],
             "kind_free_text": "history interpreter with reference models, driven by Hypothesis (sharded, seeded)"},
            {"name": "E2", "path": "vf/sched", "serves_properties": ["C01", "C02", "C03", "C04", "C05", "C14"],
             "kind_free_text": "the real pool/storage code under a harness-owned scheduler; schedules are generated data"},
            {"name": "E3", "path": "vf/xproc.py", "serves_properties": ["C18", "C20"],
             "kind_free_text": "real forked processes advanced one seek/readline at a time by a generated schedule"},
            {"name": "E5", "path": "vf/props", "serves_properties": ["C06", "C08", "C10", "C15", "C16", "C17", "C19"],
             "kind_free_text": "bounded-exhaustive enumerators over finite sub-domains, same oracles"},
        ],
        "checks": checks,
        "not_applicable": na,
        "notes": "Technique family: property-based testing and fuzzing (Hypothesis generators + bounded-exhaustive "
                 "enumeration + harness-owned schedules). See DESIGN.md.",
    }
    with open(os.path.join(ROOT, "MANIFEST.json"), "w") as f:
        json.dump(man, f, indent=1)
    print("MANIFEST.json: %d checks, %d not claimed" % (len(checks), len(na)))


if __name__ == "__main__":
    main()
