#!/usr/bin/env python3
"""Confirms that the repository's existing tests still pass with each seeded change applied (scratch worktree, removed
afterwards) and records the result in seeded/<name>/meta.json.   tools/seeded_tests.py [name ...] [--jobs N]"""
import json
import os
import shutil
import subprocess
import sys
import tempfile
import concurrent.futures as cf

ROOT = os.path.dirname(os.path.dirname(os.path.abspath(__file__)))
REPO = "/repo"
TESTS = {
    "C01": "tests/test_own_proc_pools.py tests/test_buffers.py", "C02": "tests/test_own_proc_pools.py", "C03": "tests/test_own_proc_pools.py",
    "C04": "tests/test_own_proc_pools.py", "C05": "tests/test_pools.py tests/test_parallel_maps.py tests/test_parallel_workers.py",
    "C06": "tests/test_caches.py tests/test_lists.py", "C07": "tests/test_caches.py tests/test_lists.py", "C08": "tests/test_lists.py tests/test_caches.py",
    "C09": "tests/test_sorted.py", "C10": "tests/test_span_set.py tests/test_maps.py", "C11": "tests/test_files.py", "C12": "tests/test_files.py",
    "C13": "tests/test_files.py", "C14": "tests/test_storage.py", "C15": "tests/test_buffers.py tests/test_circular_buffer.py",
    "C16": "tests/test_maps.py tests/test_span_set.py", "C17": "tests/test_generic.py", "C18": "tests/test_files.py", "C19": "tests/test_generic.py tests/test_sorted.py",
    "C20": "tests/test_files.py",
}


def one(name):
    sdir = os.path.join(ROOT, "seeded", name)
    meta = json.load(open(os.path.join(sdir, "meta.json")))
    tmp = tempfile.mkdtemp(prefix="wpu-seedtest-")
    tree = os.path.join(tmp, "tree")
    try:
        subprocess.run(["git", "-C", REPO, "worktree", "add", "-q", "--detach", tree, "HEAD"], check=True, capture_output=True)
        subprocess.run(["git", "-C", tree, "apply", os.path.join(sdir, "patch.diff")], check=True, capture_output=True)
        files = TESTS[meta["property"]].split()
        env = dict(os.environ, PYTHONPATH=tree, PYTHONUTF8="1")
        r = subprocess.run(["/venv/bin/python", "-m", "pytest", "-q", "-p", "no:cacheprovider", "--timeout=900"] + files, cwd=tree, env=env,
                           capture_output=True, text=True, start_new_session=True)
        tail = [l for l in r.stdout.splitlines() if " passed" in l or " failed" in l or " error" in l]
        res = {"files": files, "exit": r.returncode, "summary": tail[-1] if tail else r.stdout[-200:]}
        meta["existing_tests_confirmed_by_me"] = res
        json.dump(meta, open(os.path.join(sdir, "meta.json"), "w"), indent=1)
        return name, res
    finally:
        subprocess.run(["git", "-C", REPO, "worktree", "remove", "--force", tree], capture_output=True)
        shutil.rmtree(tmp, ignore_errors=True)


def main():
    args = sys.argv[1:]
    jobs = 2
    names = []
    i = 0
    while i < len(args):
        if args[i] == "--jobs":
            jobs = int(args[i + 1])
            i += 2
        else:
            names.append(args[i])
            i += 1
    if not names:
        names = sorted(os.listdir(os.path.join(ROOT, "seeded")))
    bad = 0
    with cf.ThreadPoolExecutor(jobs) as ex:
        for name, res in ex.map(one, names):
            print("%-48s exit=%s %s" % (name, res["exit"], res["summary"]), flush=True)
            bad += res["exit"] != 0
    print("%d seeded changes, %d with failing existing tests" % (len(names), bad))
    return 1 if bad else 0


if __name__ == "__main__":
    sys.exit(main())
