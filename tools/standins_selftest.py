#!/usr/bin/env python3
"""Differential self-test of the E2 stand-ins against the real primitives (sequential semantics; run by hand, not a check):
SimQueue vs queue.Queue, SimEvent vs threading.Event, SimLock/SimRLock vs threading.Lock/RLock (non-blocking acquire),
each driven by Hypothesis-generated operation sequences inside a one-task scheduler run."""
import os
import queue
import sys
import threading

sys.path.insert(0, os.path.dirname(os.path.dirname(os.path.abspath(__file__))))
from hypothesis import given, strategies as st, seed  # noqa: E402

from vf.common import hyp_settings  # noqa: E402
from vf.sched import core, prims, schedules  # noqa: E402


def in_task(fn):
    out = {}
    s = core.Sched(schedules.make_chooser({"kind": "dev"}), ())

    def main():
        out["r"] = fn()
    oc = s.run(main)
    assert oc == "done", oc
    if s.main_task.exc:
        raise s.main_task.exc
    return out["r"]


OPS = st.lists(st.tuples(st.sampled_from(["put", "get", "qsize", "empty", "full"]), st.integers(0, 9)), max_size=40)


@seed(1)
@hyp_settings(3000)
@given(st.integers(0, 3), OPS)
def test_queue(maxsize, ops):
    def run(q):
        res = []
        for op, v in ops:
            try:
                if op == "put":
                    q.put(v, block=False)
                    res.append("ok")
                elif op == "get":
                    res.append(q.get(block=False))
                else:
                    res.append(getattr(q, op)())
            except queue.Full:
                res.append("Full")
            except queue.Empty:
                res.append("Empty")
        return res
    assert in_task(lambda: run(prims.SimQueue(maxsize))) == run(queue.Queue(maxsize))


@seed(1)
@hyp_settings(2000)
@given(st.lists(st.sampled_from(["set", "clear", "is_set", "wait0"]), max_size=30))
def test_event(ops):
    def run(e):
        res = []
        for op in ops:
            if op == "wait0":
                res.append(e.wait(0) if isinstance(e, threading.Event) else e.wait(timeout=0))
            else:
                res.append(getattr(e, op)())
        return res
    assert in_task(lambda: run(prims.SimEvent())) == run(threading.Event())


@seed(1)
@hyp_settings(2000)
@given(st.booleans(), st.lists(st.sampled_from(["acq", "rel"]), max_size=20))
def test_lock(reentrant, ops):
    def run(l):
        res = []
        depth = 0
        for op in ops:
            if op == "acq":
                r = l.acquire(False) if not isinstance(l, prims.SimLock) else l.acquire(block=False)
                res.append(bool(r))
                depth += bool(r)
            elif depth > 0:
                l.release()
                depth -= 1
                res.append("rel")
        return res
    real = threading.RLock() if reentrant else threading.Lock()
    sim = prims.SimRLock() if reentrant else prims.SimLock()
    assert in_task(lambda: run(sim)) == run(real)


if __name__ == "__main__":
    for t in (test_queue, test_event, test_lock):
        t()
        print(t.__name__, "ok")
