"""C15 — reorder buffers emit each item once in serial order; ring buffer keeps last N (E1 + E5)."""
import io
import itertools

from hypothesis import strategies as st

from windpyutils.buffers import Buffer, PrintBuffer
from windpyutils.structures.circular_buffer import CircularBuffer

from ..common import take, codes

ID = "C15"
LEVEL = "exploration"
RULE = ("Cases: (a) 'reorder': an arrival order that is a permutation of 0..n-1 with a drain mask (Buffer drained fully at chosen "
        "points, one long-lived iterator resumed after further insertions, PrintBuffer printing; payloads include falsy ones: '', ' ', '0', None, 0, [], False), checked after every arrival "
        "against the longest-complete-prefix definition (emitted sequence, waiting_for, len); (b) 'script': histories mixing "
        "arrivals with the documented extras: overwrite before emission, AttributeError for an emitted position, Buffer.flush, "
        "PrintBuffer.flush (also when empty / right after construction / after a complete run), PrintBuffer.clear, custom end; "
        "(c) 'ring': CircularBuffer capacity 1..6 with put/clear sequences, every index -2..len+1 read after each step (a third of the drawn ring histories: one point read per step instead). "
        "E5: all permutations of n<=6 (quick) / 7 (thorough) x all drain masks; all put/clear sequences of length<=8 for "
        "capacities 1..4. Non-trivial: permutation != identity with >=1 drain before the end; script with a flush or "
        "overwrite; ring with a wrap-around (more puts than capacity) or a clear followed by puts. Distinct = distinct case JSON.")
EXPLANATION = "exhaustive sub-domains: permutations x drain masks up to n=6/7; ring put/clear sequences up to length 8, capacity<=4"
ASSUMPTIONS = ["serial numbers are the integers 0..n-1, each arriving once unless the script says 'overwrite'"]
FLOORS = {}
SHARDS = {"quick": 12, "thorough": 14}
def CASE_FUEL(case):
    return 300000 if "long" not in case else 400 * case["long"][0] * 40


class _Stop(Exception):
    pass


_END = object()


def g(ctx, what, fn, allowed=()):
    try:
        return fn()
    except allowed:
        raise
    except Exception as e:  # noqa
        ctx.fail("%s/exception-%s" % (what, type(e).__name__), "%s raised %r" % (what, e))
        raise _Stop()


def run_reorder(case, ctx):
    if "long" in case:
        # a long run of held-back items released by one arrival (well beyond the interpreter's recursion limit)
        n_, variant = case["long"]
        rest = list(range(1, n_))
        if variant == 1:
            rest.reverse()
        elif variant == 2:
            rest = rest[n_ // 2:] + rest[:n_ // 2]
        case = dict(case, perm=rest + [0])
        ctx.label("long-held-back-run")
        ctx.nontrivial = True
    perm, mask, end = case["perm"], case["mask"], case.get("end", "\n")
    n = len(perm)
    vk = case.get("vals") or [1]

    def sval(j):
        """value of serial j for PrintBuffer (a string; empty and blank strings are legitimate values)"""
        return ["", "v%d" % j, "0", " "][vk[j % len(vk)] % 4]

    def bval(j):
        """payload of serial j for Buffer (any object; falsy payloads are legitimate)"""
        return [None, "v%d" % j, 0, "", [], False][vk[j % len(vk)] % 6]
    if any(not sval(j) for j in range(n)):
        ctx.label("falsy-values")
    b = Buffer()
    b2 = Buffer()
    it2 = None  # long-lived iterator over b2, resumed after further insertions
    out, out2 = [], []
    arrived = set()
    sio = io.StringIO()
    pb = PrintBuffer(sio, end=end)
    for step, i in enumerate(perm):
        d = bool(mask[step % len(mask)]) if mask else False
        g(ctx, "Buffer/insert", lambda: b(i, bval(i)))
        g(ctx, "Buffer/insert", lambda: b2(i, bval(i)))
        k_before = 0
        while k_before in arrived:
            k_before += 1
        arrived.add(i)
        k = 0
        while k in arrived:
            k += 1
        if d:
            got = g(ctx, "Buffer/drain", lambda: take(b, n + 2))
            out.extend(got)
            ctx.need(out == [bval(j) for j in range(k)], "Buffer/drain/not-the-complete-prefix",
                     lambda: "after arrivals %r a full drain emitted %r in total, complete prefix is 0..%d" % (perm[:step + 1], out, k - 1))
            # second buffer: one long-lived iterator, advanced by a single item per drain point and resumed after
            # further insertions (a finished generator is replaced by a fresh one)
            if it2 is None:
                it2 = iter(b2)
            item = g(ctx, "Buffer/resumed-iterator", lambda: next(it2, _END))
            if item is _END:
                it2 = None
            else:
                out2.append(item)
            ctx.need(out2 == [bval(j) for j in range(len(out2))] and len(out2) <= k, "Buffer/resumed-iterator/wrong",
                     lambda: "partially consumed iterator emitted %r, complete prefix is 0..%d" % (out2, k - 1))
            w2 = g(ctx, "Buffer/waiting_for", lambda: b2.waiting_for())
            ctx.need(w2 in (len(out2), len(out2) - 1), "Buffer/resumed-iterator/waiting_for", lambda: "waiting_for=%r after emitting %d" % (w2, len(out2)))
        w = g(ctx, "Buffer/waiting_for", lambda: b.waiting_for())
        ln = g(ctx, "Buffer/len", lambda: len(b))
        ctx.need(w == len(out), "Buffer/waiting_for/wrong", lambda: "waiting_for=%r, emitted %d" % (w, len(out)))
        ctx.need(ln == len(arrived) - len(out), "Buffer/len/wrong", lambda: "len=%r, held back %d" % (ln, len(arrived) - len(out)))
        r = g(ctx, "PrintBuffer/print", lambda: pb.print(i, sval(i)))
        ctx.need(pb.waiting_for == k, "PrintBuffer/waiting_for/wrong", lambda: "waiting_for=%r expected %d" % (pb.waiting_for, k))
        ctx.need(len(pb) == len(arrived) - k, "PrintBuffer/len/wrong", lambda: "len=%r expected %d" % (len(pb), len(arrived) - k))
        exp = "".join(sval(j) + end for j in range(k))
        ctx.need(sio.getvalue() == exp, "PrintBuffer/print/output-wrong", lambda: "printed %r expected %r" % (sio.getvalue(), exp))
        ctx.need(bool(r) == (i == k_before), "PrintBuffer/print/return-value", lambda: "print(%d) returned %r while waiting for %d" % (i, r, k_before))
    rest = g(ctx, "Buffer/resumed-iterator", lambda: (take(it2, n + 2) if it2 is not None else []) + take(b2, n + 2))
    out2.extend(rest)
    ctx.need(out2 == [bval(j) for j in range(n)], "Buffer/resumed-iterator/final-sequence-wrong", lambda: "emitted %r for arrivals %r" % (out2, perm))
    got = g(ctx, "Buffer/drain", lambda: take(b, n + 2))
    out.extend(got)
    ctx.need(out == [bval(j) for j in range(n)], "Buffer/drain/final-sequence-wrong", lambda: "emitted %r for arrivals %r" % (out, perm))
    ctx.need(len(b) == 0 and b.waiting_for() == n, "Buffer/final-state/wrong", "buffer not empty / waiting_for wrong at the end")
    if perm != sorted(perm) and mask and any(mask[s % len(mask)] for s in range(max(0, n - 1))):
        ctx.nontrivial = True
        ctx.label("out-of-order-with-drain")
    ctx.label("reorder")


def run_script(case, ctx):
    """ops: ["put", i] | ["drain"] | ["bflush"] | ["pflush"] | ["pclear"]; model written from the docstrings."""
    end = case.get("end", "\n")
    b = Buffer()
    sio = io.StringIO()
    pb = PrintBuffer(sio, end=end)
    bm = {"store": {}, "w": 0}
    pm = {"store": {}, "w": 0, "out": ""}
    ver = 0
    for o in case["ops"]:
        k = o[0]
        if k == "put":
            i = o[1]
            ver += 1
            val = "" if (case.get("empty_every") and ver % case["empty_every"] == 0) else "v%d.%d" % (i, ver)
            # Buffer
            if i < bm["w"]:
                try:
                    g(ctx, "Buffer/insert", lambda: b(i, val), allowed=(AttributeError,))
                    ctx.fail("Buffer/insert/no-AttributeError", "position %d was already generated (waiting_for=%d) but was accepted" % (i, bm["w"]))
                except AttributeError:
                    ctx.label("already-generated")
            else:
                if i in bm["store"]:
                    ctx.label("overwrite")
                    ctx.nontrivial = True
                r = g(ctx, "Buffer/insert", lambda: b(i, val))
                ctx.need(r is b, "Buffer/insert/returns-self", "__call__ does not return the buffer")
                bm["store"][i] = val
            # PrintBuffer
            r = g(ctx, "PrintBuffer/print", lambda: pb.print(i, val))
            if i == pm["w"]:
                pm["out"] += val + end
                pm["w"] += 1
                while pm["w"] in pm["store"]:
                    pm["out"] += pm["store"].pop(pm["w"]) + end
                    pm["w"] += 1
                ctx.need(r is True, "PrintBuffer/print/return-value", "print of the awaited serial number did not return True")
            else:
                pm["store"][i] = val
                ctx.need(r is False, "PrintBuffer/print/return-value", "print of a buffered value did not return False")
        elif k == "drain":
            got = g(ctx, "Buffer/drain", lambda: take(b, len(bm["store"]) + 2))
            exp = []
            while bm["w"] in bm["store"]:
                exp.append(bm["store"].pop(bm["w"]))
                bm["w"] += 1
            ctx.need(got == exp, "Buffer/drain/wrong", lambda: "drain gave %r expected %r" % (got, exp))
        elif k == "bflush":
            g(ctx, "Buffer/flush", lambda: b.flush())
            bm = {"store": {}, "w": 0}
            ctx.label("buffer-flush")
            ctx.nontrivial = True
        elif k == "pflush":
            g(ctx, "PrintBuffer/flush", lambda: pb.flush())
            if pm["store"]:
                for s in sorted(pm["store"]):
                    pm["out"] += pm["store"][s] + end
                pm["w"] = max(pm["store"]) + 1
                pm["store"] = {}
                ctx.label("printbuffer-flush-nonempty")
            else:
                ctx.label("printbuffer-flush-empty")
            ctx.nontrivial = True
        elif k == "pclear":
            g(ctx, "PrintBuffer/clear", lambda: pb.clear())
            pm["store"] = {}
            pm["w"] = 0
            ctx.label("printbuffer-clear")
        else:
            raise AssertionError(k)
        w = g(ctx, "Buffer/waiting_for", lambda: b.waiting_for())
        ctx.need(w == bm["w"] and len(b) == len(bm["store"]), "Buffer/%s/state-wrong" % k,
                 lambda: "after %r waiting_for=%r len=%r, expected %r/%r" % (o, w, len(b), bm["w"], len(bm["store"])))
        ctx.need(pb.waiting_for == pm["w"] and len(pb) == len(pm["store"]), "PrintBuffer/%s/state-wrong" % k,
                 lambda: "after %r waiting_for=%r len=%r, expected %r/%r" % (o, pb.waiting_for, len(pb), pm["w"], len(pm["store"])))
        ctx.need(sio.getvalue() == pm["out"], "PrintBuffer/%s/output-wrong" % k,
                 lambda: "after %r printed %r expected %r" % (o, sio.getvalue(), pm["out"]))
    ctx.label("script")


def run_ring(case, ctx):
    cap = case["cap"]
    cb = g(ctx, "CircularBuffer/init", lambda: CircularBuffer(cap))
    hist = []
    cleared = False
    for o in case["ops"]:
        if o is None:
            g(ctx, "CircularBuffer/clear", lambda: cb.clear())
            hist = []
            cleared = True
            ctx.label("ring-clear")
        else:
            g(ctx, "CircularBuffer/put", lambda: cb.put(o))
            hist.append(o)
            if cleared:
                ctx.label("put-after-clear")
                ctx.nontrivial = True
            if len(hist) > cap:
                ctx.label("wrap-around")
                ctx.nontrivial = True
        exp = hist[-cap:]
        if case.get("observe") == "sparse" and o is not case["ops"][-1]:
            # a third of the drawn histories: one point read per step (no iteration, no sweep over all indices), so that state kept
            # from one read to the next - a cached position of the oldest element, round 17 - is not refreshed by the observation
            ctx.label("ring-observed-by-one-point-read-per-step")
            if exp:
                i = (len(hist) + (o or 0)) % len(exp)
                r = g(ctx, "CircularBuffer/getitem", lambda: cb[i])
                ctx.need(r == exp[i], "CircularBuffer/getitem/wrong", lambda: "[%d]=%r expected %r (capacity %d after %r)" % (i, r, exp[i], cap, case["ops"]))
            ctx.need(len(cb) == len(exp), "CircularBuffer/len/wrong", lambda: "len %d expected %d" % (len(cb), len(exp)))
            continue
        got = g(ctx, "CircularBuffer/iter", lambda: take(cb, len(exp) + 2))
        ctx.need(got == exp, "CircularBuffer/content/wrong", lambda: "capacity %d after %r: %r expected %r" % (cap, case["ops"], got, exp))
        ctx.need(len(cb) == len(exp), "CircularBuffer/len/wrong", lambda: "len %d expected %d" % (len(cb), len(exp)))
        ctx.need(cb.max_size == cap, "CircularBuffer/max_size/wrong", "max_size changed")
        for i in range(len(exp)):
            r = g(ctx, "CircularBuffer/getitem", lambda: cb[i])
            ctx.need(r == exp[i], "CircularBuffer/getitem/wrong", lambda: "[%d]=%r expected %r" % (i, r, exp[i]))
        for i in (-2, -1, len(exp), len(exp) + 1):
            try:
                g(ctx, "CircularBuffer/getitem", lambda: cb[i], allowed=(IndexError,))
                ctx.fail("CircularBuffer/getitem/no-IndexError", "index %d accepted with len %d" % (i, len(exp)))
            except IndexError:
                pass
    ctx.label("ring")


def run_case(case, ctx):
    try:
        {"reorder": run_reorder, "script": run_script, "ring": run_ring}[case["kind"]](case, ctx)
    except _Stop:
        return


# ------------------------------------------------------------------------------------------ generators

def enum_perms(nmax):
    def gen():
        for n in range(0, nmax + 1):
            for perm in itertools.permutations(range(n)):
                for mask in itertools.product((0, 1), repeat=n):
                    yield {"kind": "reorder", "perm": list(perm), "mask": list(mask), "end": "\n"}
                    if n <= 5:
                        # the same arrivals with falsy payloads ("" / None / 0) at even serial numbers
                        yield {"kind": "reorder", "perm": list(perm), "mask": list(mask), "end": "\n", "vals": [0, 1]}
    return gen


def enum_ring():
    for cap in range(1, 5):
        for ln in range(0, 9):
            for ops in itertools.product((0, 1), repeat=ln):
                # 1 -> put a fresh value, 0 -> clear
                c = itertools.count()
                yield {"kind": "ring", "cap": cap, "ops": [next(c) if x else None for x in ops]}


def enumerations(tier):
    n = 7 if tier == "thorough" else 6
    long_runs = [{"kind": "reorder", "long": [m, v], "mask": [0], "end": "\n"} for m in (1100, 1700) for v in (0, 1, 2)]
    return [("permutations-n<=%d-x-drain-masks" % n, enum_perms(n), True), ("ring-put/clear-len<=8-cap<=4", enum_ring, True),
            ("held-back-runs-of-1100-and-1700-items", lambda: iter(long_runs), True)]


SCRIPT_OPS = ["put", "put", "put", "drain", "pflush", "bflush", "pclear", "put", "drain", "pflush"]


def dec_script(c):
    op = SCRIPT_OPS[c % len(SCRIPT_OPS)]
    if op == "put":
        return [op, (c // len(SCRIPT_OPS)) % 8]
    return [op]


def strategies(tier):
    big = tier == "thorough"
    perm = st.integers(0, 40).flatmap(lambda n: st.permutations(list(range(n))))
    reorder = st.fixed_dictionaries({"kind": st.just("reorder"), "perm": perm, "mask": st.lists(st.integers(0, 1), min_size=1, max_size=12),
                                     "vals": st.one_of(st.just([1]), st.lists(st.integers(0, 5), min_size=1, max_size=5)),
                                     "end": st.sampled_from(["\n", "", "|", "\r\n"])})
    script = st.fixed_dictionaries({"kind": st.just("script"), "end": st.sampled_from(["\n", "", ";"]), "empty_every": st.sampled_from([0, 0, 2, 3]),
                                    "ops": st.one_of(codes(0, 6), codes(6, 30)).map(lambda cs: [dec_script(c) for c in cs])})
    ring = st.fixed_dictionaries({"kind": st.just("ring"), "cap": st.integers(1, 6), "observe": st.sampled_from(["each", "each", "sparse"]),
                                  "ops": st.lists(st.one_of(st.integers(0, 99), st.integers(0, 99), st.integers(0, 99), st.none()), max_size=60)})
    n = 2000000 if big else 20000
    return [("reorder-drawn", reorder, n // 4), ("scripts", script, n // 2), ("ring-drawn", ring, n // 4)]
