"""C09 — SortedSet / SortedMap stay sorted, duplicate-free and equivalent to set / dict (E1)."""
import itertools

from hypothesis import strategies as st

from windpyutils.structures.sorted import SortedSet, SortedMap

from ..common import codes, take

ID = "C09"
LEVEL = "exploration"
RULE = ("Cases: an initial collection (absent, empty, unsorted, with repeats incl. 1/1.0/True; for the map a dict, a list of pairs "
        "with repeated keys, an empty list or a generator) over ints (incl. >2**53), floats (incl. +-inf, -0.0) mixed, then a "
        "history of <=40 operations (set: add/discard/remove/pop/in/clear; map: store/delete/lookup/get/pop/popitem/setdefault/"
        "update/in/clear; store/setdefault/update of a key the map cannot order) plus foreign-typed probes ('a', None, (1,), b'x', 1j, NaN). After every step (in a third of the histories and in the read-op-read parts: only through the history's own point reads, and after the last step) iteration must be strictly "
        "ascending and content, length, membership, lookup and KeyError behaviour equal a builtin set/dict driven by the same "
        "operations. Non-trivial: initial collection empty or with repeats, or >=3 successful mutations with mixed int/float "
        "values, or a foreign probe on a non-empty structure. Distinct = distinct case JSON.")
EXPLANATION = "exhaustive sub-domains: all short histories over a 4-value (set) / 3-key (map) alphabet from 4 initial collections"
ASSUMPTIONS = ["keys are ints/floats/bools (never NaN as content); exotic __lt__/__eq__ are not generated"]
FLOORS = {"empty-init": (0.02, "drawn"), "repeats-in-init": (0.15, "drawn"), "foreign-probe": (0.25, "drawn")}
SHARDS = {"quick": 12, "thorough": 14}
CASE_FUEL = 200000

NUMS = [0, 1, -1, 2, 3, -3, 5, 2 ** 53, 2 ** 53 + 1, 2 ** 53 + 2, 0.5, -0.0, 1.0, 2.5, -2.5, float(2 ** 53), float("inf"),
        float("-inf"), True, False, 1e-9, 10 ** 30, 10 ** 400, -(10 ** 400)]   # ints beyond the range of floats are numbers too
FOREIGN = ["a", None, (1,), b"x", 1j, float("nan")]
SET_OPS = ["add", "add", "discard", "remove", "in", "pop", "probe", "add", "in", "clear", "discard-foreign"]
MAP_OPS = ["set", "set", "del", "get", "in", "pop", "setdefault", "update", "probe", "popitem", "set", "get", "clear",
           "del-foreign", "store-foreign"]


def dec_set(c):
    op = SET_OPS[c % len(SET_OPS)]
    x = c // len(SET_OPS)
    if op in ("probe", "discard-foreign"):
        return [op, x % len(FOREIGN)]
    if op in ("pop", "clear"):
        return [op]
    return [op, NUMS[x % len(NUMS)]]


def dec_map(c):
    op = MAP_OPS[c % len(MAP_OPS)]
    x = c // len(MAP_OPS)
    if op in ("probe", "del-foreign"):
        return [op, x % len(FOREIGN)]
    if op == "store-foreign":
        return [op, x % len(FOREIGN), (x // len(FOREIGN)) % 3]
    if op in ("popitem", "clear"):
        return [op]
    k = NUMS[x % len(NUMS)]
    x //= len(NUMS)
    v = x % 50
    x //= 50
    if v >= 47:
        v = [None, "", 0][v - 47]    # None and falsy values are values like any other
    if op in ("set", "setdefault"):
        return [op, k, v]
    if op == "update":
        n = x % 4
        return [op, [[NUMS[(x // 4 + 3 * i) % len(NUMS)], ((v if isinstance(v, int) else 7) + i) % 47] for i in range(n)]]
    return [op, k]


def is_mixed(vals):
    ts = {type(v) for v in vals}
    return int in ts and float in ts


def strictly_ascending(ls):
    return all(a < b for a, b in zip(ls, ls[1:]))


class _Stop(Exception):
    pass


def guard(ctx, what, fn, allowed=()):
    try:
        return fn()
    except allowed:
        raise
    except Exception as e:  # noqa
        ctx.fail("%s/exception-%s" % (what, type(e).__name__), "%s raised %r" % (what, e))
        raise _Stop()


def run_set(case, ctx):
    init = case["init"]
    ref = set(init or [])
    src0 = None
    if init is None:
        s = guard(ctx, "SortedSet/init", lambda: SortedSet())
    elif case.get("form") == "sortedset":
        src0 = guard(ctx, "SortedSet/init", lambda: SortedSet(list(init)))
        s = guard(ctx, "SortedSet/init-from-SortedSet", lambda: SortedSet(src0))
    else:
        src = list(init)
        s = guard(ctx, "SortedSet/init", lambda: SortedSet(src))
        src.clear()                # the caller goes on using its own list
        src.append(-7)
    if init is not None and len(init) == 0:
        ctx.label("empty-init")
        ctx.nontrivial = True
    if init and len(ref) < len(init):
        ctx.label("repeats-in-init")
        ctx.nontrivial = True
    muts = []

    def observe(after):
        ls = guard(ctx, "SortedSet/iter", lambda: take(s, len(ref) + 2))
        ok = ls == sorted(ref) and strictly_ascending(ls)
        if not ctx.need(ok, "SortedSet/%s/content-differs" % after,
                        lambda: "after %s iteration gives %r, builtin set gives %r" % (after, ls, sorted(ref))):
            raise _Stop()
        ln = guard(ctx, "SortedSet/len", lambda: len(s))
        if not ctx.need(ln == len(ref), "SortedSet/%s/len" % after, lambda: "len %d vs %d" % (ln, len(ref))):
            raise _Stop()

    observe("init")
    sparse = case.get("observe") == "sparse"
    if sparse:
        ctx.label("observed-only-through-its-own-reads")
    for o in case["ops"]:
        k = o[0]
        if k == "add":
            if o[1] not in ref:
                muts.append(o[1])
            guard(ctx, "SortedSet/add", lambda: s.add(o[1]))
            ref.add(o[1])
        elif k == "discard":
            if o[1] in ref:
                muts.append(o[1])
            guard(ctx, "SortedSet/discard", lambda: s.discard(o[1]))
            ref.discard(o[1])
        elif k == "remove":
            if o[1] in ref:
                muts.append(o[1])
                guard(ctx, "SortedSet/remove", lambda: s.remove(o[1]))
                ref.remove(o[1])
            else:
                try:
                    guard(ctx, "SortedSet/remove", lambda: s.remove(o[1]), allowed=(KeyError,))
                    ctx.fail("SortedSet/remove/no-KeyError", "remove of absent %r did not raise KeyError" % (o[1],))
                except KeyError:
                    pass
        elif k == "in":
            r = guard(ctx, "SortedSet/in", lambda: o[1] in s)
            ctx.need(r == (o[1] in ref), "SortedSet/in/wrong", lambda: "%r in s = %r, set says %r" % (o[1], r, o[1] in ref))
        elif k == "pop":
            if ref:
                x = guard(ctx, "SortedSet/pop", lambda: s.pop())
                if not ctx.need(x in ref, "SortedSet/pop/not-a-member", lambda: "pop returned %r" % (x,)):
                    raise _Stop()
                ref.remove(x)
                muts.append(x)
            else:
                try:
                    guard(ctx, "SortedSet/pop", lambda: s.pop(), allowed=(KeyError,))
                    ctx.fail("SortedSet/pop/no-KeyError", "pop from empty set did not raise KeyError")
                except KeyError:
                    pass
        elif k == "clear":
            guard(ctx, "SortedSet/clear", lambda: s.clear())
            ref.clear()
        elif k == "probe":
            f = FOREIGN[o[1]]
            r = guard(ctx, "SortedSet/in-foreign", lambda: f in s)
            ctx.need(r is False, "SortedSet/in-foreign/not-absent", lambda: "%r in s = %r" % (f, r))
            ctx.label("foreign-probe")
            if ref:
                ctx.nontrivial = True
        elif k == "discard-foreign":
            f = FOREIGN[o[1]]
            try:
                s.discard(f)
            except (KeyError, TypeError):
                pass
            except Exception as e:  # noqa
                ctx.fail("SortedSet/discard-foreign/exception-%s" % type(e).__name__, repr(e))
            ctx.label("foreign-mutation")
        else:
            raise AssertionError(k)
        # a third of the drawn histories are observed only through the point reads they contain (and in full at the end):
        # a full iteration after every step would refresh read-side state before a single lookup can expose it (C12, round 16)
        if not sparse or o is case["ops"][-1]:
            observe(k)
    if src0 is not None:
        left = guard(ctx, "SortedSet/iter", lambda: take(src0, len(init) + 2))
        ctx.need(left == sorted(set(init)), "SortedSet/init-from-SortedSet/source-changed",
                 lambda: "the set the new one was built from now holds %r, it was built from %r" % (left, sorted(set(init))))
    if len(muts) >= 3 and is_mixed(muts):
        ctx.label("mixed-mutations")
        ctx.nontrivial = True


def run_map(case, ctx):
    init = case["init"]
    form = case.get("form", "pairs")
    if init is None:
        m = guard(ctx, "SortedMap/init", lambda: SortedMap())
        ref = {}
    else:
        pairs = [tuple(p) for p in init]
        ref = dict(pairs)
        src0 = None
        if form == "dict":
            src = dict(pairs)
            m = guard(ctx, "SortedMap/init-dict", lambda: SortedMap(src))
            src.clear()            # the caller goes on using its own containers: the map holds its own copy
            src[-7] = "late"
        elif form == "gen":
            m = guard(ctx, "SortedMap/init-generator", lambda: SortedMap(p for p in pairs))
        elif form == "sortedmap":
            init_pairs = list(pairs)
            src0 = guard(ctx, "SortedMap/init-pairs", lambda: SortedMap(list(init_pairs)))
            m = guard(ctx, "SortedMap/init-from-SortedMap", lambda: SortedMap(src0))
        else:
            src = list(pairs)
            m = guard(ctx, "SortedMap/init-pairs", lambda: SortedMap(src))
            src.clear()
        if len(pairs) == 0:
            ctx.label("empty-init")
            ctx.nontrivial = True
        if len(ref) < len(pairs) and form != "dict":
            ctx.label("repeats-in-init")
            ctx.nontrivial = True
    muts = []

    def observe(after):
        items = guard(ctx, "SortedMap/items", lambda: take(m.items(), len(ref) + 2))
        ks = guard(ctx, "SortedMap/iter", lambda: take(m, len(ref) + 2))
        try:
            ok = items == sorted(ref.items()) and strictly_ascending(ks)
        except TypeError:   # only after an accepted store of a key that cannot be ordered against the others
            ctx.fail("SortedMap/%s/holds-mutually-unorderable-keys" % after, "keys %r cannot be iterated in ascending order" % (ks,))
            raise _Stop()
        if not ctx.need(ok, "SortedMap/%s/content-differs" % after,
                        lambda: "after %s items() gives %r, builtin dict gives %r" % (after, items, sorted(ref.items()))):
            raise _Stop()
        ln = guard(ctx, "SortedMap/len", lambda: len(m))
        if not ctx.need(ln == len(ref), "SortedMap/%s/len" % after, lambda: "len %d vs %d" % (ln, len(ref))):
            raise _Stop()

    observe("init")
    sparse = case.get("observe") == "sparse"
    if sparse:
        ctx.label("observed-only-through-its-own-reads")
    for o in case["ops"]:
        k = o[0]
        if k == "set":
            muts.append(o[1])
            guard(ctx, "SortedMap/store", lambda: m.__setitem__(o[1], o[2]))
            ref[o[1]] = o[2]
        elif k == "del":
            if o[1] in ref:
                muts.append(o[1])
                guard(ctx, "SortedMap/del", lambda: m.__delitem__(o[1]))
                del ref[o[1]]
            else:
                try:
                    guard(ctx, "SortedMap/del", lambda: m.__delitem__(o[1]), allowed=(KeyError,))
                    ctx.fail("SortedMap/del/no-KeyError", "delete of absent key did not raise KeyError")
                except KeyError:
                    pass
        elif k == "get":
            if o[1] in ref:
                r = guard(ctx, "SortedMap/lookup", lambda: m[o[1]])
                ctx.need(r == ref[o[1]], "SortedMap/lookup/wrong-value", lambda: "m[%r]=%r, dict has %r" % (o[1], r, ref[o[1]]))
            else:
                try:
                    guard(ctx, "SortedMap/lookup", lambda: m[o[1]], allowed=(KeyError,))
                    ctx.fail("SortedMap/lookup/no-KeyError", "lookup of absent key %r did not raise KeyError" % (o[1],))
                except KeyError:
                    pass
            r = guard(ctx, "SortedMap/get", lambda: m.get(o[1], "D"))
            ctx.need(r == ref.get(o[1], "D"), "SortedMap/get/wrong", lambda: "get(%r)=%r" % (o[1], r))
        elif k == "in":
            r = guard(ctx, "SortedMap/in", lambda: o[1] in m)
            ctx.need(r == (o[1] in ref), "SortedMap/in/wrong", lambda: "%r in m = %r" % (o[1], r))
        elif k == "pop":
            if o[1] in ref:
                muts.append(o[1])
            r = guard(ctx, "SortedMap/pop", lambda: m.pop(o[1], "D"))
            e = ref.pop(o[1], "D")
            ctx.need(r == e, "SortedMap/pop/wrong", lambda: "pop(%r)=%r expected %r" % (o[1], r, e))
        elif k == "setdefault":
            if o[1] not in ref:
                muts.append(o[1])
            r = guard(ctx, "SortedMap/setdefault", lambda: m.setdefault(o[1], o[2]))
            e = ref.setdefault(o[1], o[2])
            ctx.need(r == e, "SortedMap/setdefault/wrong", lambda: "setdefault(%r)=%r expected %r" % (o[1], r, e))
        elif k == "update":
            pairs = [tuple(p) for p in o[1]]
            muts.extend(p[0] for p in pairs)
            shape = (len(pairs) + len(ref)) % 4
            if shape == 0:
                guard(ctx, "SortedMap/update", lambda: m.update(dict(pairs)))      # mapping argument
                ref.update(dict(pairs))
            elif shape == 1:
                guard(ctx, "SortedMap/update", lambda: m.update(pairs))            # list of pairs
                ref.update(pairs)
            elif shape == 2:
                guard(ctx, "SortedMap/update", lambda: m.update(iter(pairs)))      # one-shot iterator of pairs (zip, generator, ...)
                ref.update(pairs)
            else:
                guard(ctx, "SortedMap/update", lambda: m.update(zip([p[0] for p in pairs], [p[1] for p in pairs])))
                ref.update(pairs)
        elif k == "popitem":
            if ref:
                kk, vv = guard(ctx, "SortedMap/popitem", lambda: m.popitem())
                if not ctx.need(kk in ref and ref[kk] == vv, "SortedMap/popitem/not-an-item", lambda: "popitem gave %r" % ((kk, vv),)):
                    raise _Stop()
                del ref[kk]
            else:
                try:
                    guard(ctx, "SortedMap/popitem", lambda: m.popitem(), allowed=(KeyError,))
                    ctx.fail("SortedMap/popitem/no-KeyError", "popitem on empty map did not raise KeyError")
                except KeyError:
                    pass
        elif k == "clear":
            guard(ctx, "SortedMap/clear", lambda: m.clear())
            ref.clear()
        elif k == "probe":
            f = FOREIGN[o[1]]
            if any(f is x for x in ref):   # accepted by an earlier store-foreign: no longer foreign to this map
                continue
            r = guard(ctx, "SortedMap/in-foreign", lambda: f in m)
            ctx.need(r is False, "SortedMap/in-foreign/not-absent", lambda: "%r in m = %r" % (f, r))
            try:
                guard(ctx, "SortedMap/lookup-foreign", lambda: m[f], allowed=(KeyError,))
                ctx.fail("SortedMap/lookup-foreign/no-KeyError", "m[%r] did not raise KeyError" % (f,))
            except KeyError:
                pass
            r = guard(ctx, "SortedMap/get-foreign", lambda: m.get(f, "D"))
            ctx.need(r == "D", "SortedMap/get-foreign/wrong", "get(foreign) returned %r" % (r,))
            r = guard(ctx, "SortedMap/pop-foreign-with-default", lambda: m.pop(f, "D"))
            ctx.need(r == "D", "SortedMap/pop-foreign-with-default/wrong", "pop(foreign, default) returned %r, dict returns the default" % (r,))
            r = guard(ctx, "SortedMap/setdefault-contains-foreign", lambda: f in m.keys())
            ctx.need(r is False, "SortedMap/keys-contains-foreign/wrong", "foreign in m.keys() = %r" % (r,))
            ctx.label("foreign-probe")
            if ref:
                ctx.nontrivial = True
        elif k == "store-foreign":
            # a key the map cannot order (SortedMap validates keys in __setitem__): whichever way it is offered, either it is
            # rejected and nothing changes, or it is accepted and the map keeps behaving like the dict that accepted it too
            f = FOREIGN[o[1]]
            try:
                if o[2] == 0:
                    m[f] = 7
                elif o[2] == 1:
                    m.setdefault(f, 7)
                else:
                    m.update([(f, 7)])
                ref[f] = 7
                ctx.label("foreign-store-accepted")
            except Exception:  # noqa - rejection; observe() below compares with the unchanged reference
                pass
            ctx.label("foreign-mutation")
            if ref:
                ctx.nontrivial = True
        elif k == "del-foreign":
            f = FOREIGN[o[1]]
            if any(f is x for x in ref):   # accepted by an earlier store-foreign: no longer foreign to this map
                continue
            deleted = False
            try:
                del m[f]
                deleted = True
            except (KeyError, TypeError):
                pass
            except Exception as e:  # noqa
                ctx.fail("SortedMap/del-foreign/exception-%s" % type(e).__name__, repr(e))
            if deleted:
                ctx.fail("SortedMap/del-foreign/deleted-something", "del m[%r] succeeded" % (f,))
            ctx.label("foreign-mutation")
        else:
            raise AssertionError(k)
        # a third of the drawn histories are observed only through the point reads they contain (and in full at the end):
        # a full iteration after every step would refresh read-side state before a single lookup can expose it (C12, round 16)
        if not sparse or o is case["ops"][-1]:
            observe(k)
    if init is not None and form == "sortedmap":
        # two maps, one built from the other, are independent: the source still holds exactly the initial pairs
        left = guard(ctx, "SortedMap/items", lambda: take(src0.items(), len(init_pairs) + 2))
        ctx.need(left == sorted(dict(init_pairs).items()), "SortedMap/init-from-SortedMap/source-changed",
                 lambda: "the map the new one was built from now holds %r, it was built from %r" % (left, sorted(dict(init_pairs).items())))
        ctx.label("built-from-another-sorted-map")
    if len(muts) >= 3 and is_mixed(muts):
        ctx.label("mixed-mutations")
        ctx.nontrivial = True


def run_case(case, ctx):
    if case.get("src") == "drawn":
        ctx.label("drawn")
    try:
        if case["kind"] == "set":
            ctx.label("set")
            run_set(case, ctx)
        else:
            ctx.label("map")
            run_map(case, ctx)
    except _Stop:
        return


def strategies(tier):
    big = tier == "thorough"
    num = st.sampled_from(NUMS)
    hist = st.one_of(codes(0, 10), codes(12, 40))
    set_init = st.one_of(st.none(), st.just([]), st.lists(num, max_size=8), st.lists(st.sampled_from([1, 1.0, True, 0, -0.0, False, 2]), min_size=2, max_size=6))
    set_case = st.fixed_dictionaries({"src": st.just("drawn"), "kind": st.just("set"), "init": set_init, "form": st.sampled_from(["list", "list", "sortedset"]), "observe": st.sampled_from(["each", "each", "sparse"]), "ops": hist.map(lambda cs: [dec_set(c) for c in cs])})
    pair = st.tuples(num, st.integers(0, 49)).map(list)
    pair_rep = st.tuples(st.sampled_from([1, 1.0, True, 0, -0.0, 2, 0.5]), st.integers(0, 49)).map(list)
    map_init = st.one_of(st.none(), st.just([]), st.lists(pair, max_size=8), st.lists(pair_rep, min_size=2, max_size=6))
    map_case = st.fixed_dictionaries({"src": st.just("drawn"), "kind": st.just("map"), "init": map_init, "form": st.sampled_from(["pairs", "pairs", "dict", "gen", "sortedmap", "sortedmap"]), "observe": st.sampled_from(["each", "each", "sparse"]),
                                      "ops": hist.map(lambda cs: [dec_map(c) for c in cs])})
    # "read key x - one operation - read key x" segments, observed only through those reads: a memo of the last lookup that one
    # mutator forgets to drop (round 17) needs exactly that shape, and a full iteration after every step would hide it
    code = st.integers(0, 2 ** 24 - 1)

    def segs(dec, read):
        seg = st.one_of(code.map(lambda c: [dec(c)]), st.tuples(num, code).map(lambda t: [[read, t[0]], dec(t[1]), [read, t[0]]]))
        return st.lists(seg, min_size=1, max_size=12).map(lambda ss: [o for sg in ss for o in sg])
    set_probe = st.fixed_dictionaries({"src": st.just("drawn"), "kind": st.just("set"), "init": set_init, "form": st.just("list"), "observe": st.just("sparse"), "ops": segs(dec_set, "in")})
    map_probe = st.fixed_dictionaries({"src": st.just("drawn"), "kind": st.just("map"), "init": map_init, "form": st.sampled_from(["pairs", "dict"]), "observe": st.just("sparse"), "ops": segs(dec_map, "get")})
    n = 3000000 if big else 30000
    return [("sets", set_case, n // 2), ("maps", map_case, n // 2), ("read-op-read-sets", set_probe, n // 8), ("read-op-read-maps", map_probe, n // 4)]


def enum_sets(maxlen):
    def gen():
        vals = [0, 1.0, 2, True]
        alphabet = [[op, v] for op in ("add", "discard", "remove", "in") for v in vals] + [["pop"], ["clear"]]
        for init in (None, [], [2, 0], [1, 1.0, True]):
            for ln in range(0, maxlen + 1):
                for ops in itertools.product(alphabet, repeat=ln):
                    yield {"kind": "set", "init": init, "ops": [list(o) for o in ops]}
    return gen


def enum_maps(maxlen):
    def gen():
        keys = [0, 1.0, 2]
        alphabet = [["set", k, i] for i, k in enumerate(keys)] + [[op, k] for op in ("del", "get", "pop") for k in keys] + [["popitem"], ["setdefault", True, 9]]
        for init, form in ((None, "pairs"), ([], "pairs"), ([[2, 5], [0, 6], [2, 7]], "pairs"), ([[1, 5], [1.0, 6]], "gen")):
            for ln in range(0, maxlen + 1):
                for ops in itertools.product(alphabet, repeat=ln):
                    yield {"kind": "map", "init": init, "form": form, "ops": [list(o) for o in ops]}
    return gen


def enumerations(tier):
    n = 4 if tier == "thorough" else 3
    return [("all-set-histories-len<=%d-4-values-4-initial-collections" % n, enum_sets(n), True),
            ("all-map-histories-len<=%d-3-keys-4-initial-collections" % n, enum_maps(n), True)]
