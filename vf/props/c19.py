"""C19 — generic sequence helpers equal their brute-force definitions (E5 exhaustive + E1 drawn)."""
import collections
import itertools
import math

from hypothesis import strategies as st

from windpyutils import generic as G

ID = "C19"
LEVEL = "exploration"
RULE = ("Cases: every integer 1..3999 (roman, exhaustive); all (needle, haystack) pairs over a 2-letter alphabet with "
        "|needle|<=4, |haystack|<=7 as list/tuple/str (exhaustive); all (n, batch_size) with n<=12, batch_size<=14 for "
        "Batcher/BatcherIter, single and tuple inputs (exhaustive); all lists of length<=6 over a 3-value alphabet for "
        "arg_sort, both directions (exhaustive); plus Hypothesis-drawn longer inputs. Non-trivial: a subtractive "
        "numeral (4/9 digit), a tie in arg_sort, an overlapping or repeated occurrence of the needle, a partial last "
        "batch, unequal multisets of equal length. Distinct = distinct case JSON.")
EXPLANATION = "exhaustive_subdomains lists the finite sub-domains enumerated completely; the property's full domain is unbounded."
ASSUMPTIONS = ["payloads are ints / short strings; exotic __eq__ implementations are not generated"]
FLOORS = {}
SHARDS = {"quick": 8, "thorough": 14}
CASE_FUEL = 400000


def ref_roman(n):
    th = ["", "M", "MM", "MMM"]
    h = ["", "C", "CC", "CCC", "CD", "D", "DC", "DCC", "DCCC", "CM"]
    t = ["", "X", "XX", "XXX", "XL", "L", "LX", "LXX", "LXXX", "XC"]
    o = ["", "I", "II", "III", "IV", "V", "VI", "VII", "VIII", "IX"]
    return th[n // 1000] + h[n // 100 % 10] + t[n // 10 % 10] + o[n % 10]


def stable_argsort(xs, rev):
    out = []
    for i in range(len(xs)):
        j = len(out)
        while j > 0 and ((xs[out[j - 1]] < xs[i]) if rev else (xs[out[j - 1]] > xs[i])):
            j -= 1
        out.insert(j, i)
    return out


def conv(seq, typ):
    if typ == "list":
        return list(seq)
    if typ == "tuple":
        return tuple(seq)
    return "".join("ab"[x] if x < 2 else "c" for x in seq)


def guard(ctx, what, fn):
    try:
        return fn()
    except Exception as e:  # noqa: any exception of a helper on valid input is a violation
        ctx.fail("generic/%s/exception-%s" % (what, type(e).__name__), "%s raised %r" % (what, e))
        return None


def run_case(case, ctx):
    k = case["kind"]
    if k == "roman":
        lo, hi = case["lo"], case["hi"]
        for n in range(lo, hi):
            r = guard(ctx, "int_2_roman", lambda: G.int_2_roman(n))
            exp = ref_roman(n)
            ctx.need(r == exp, "generic/int_2_roman/not-canonical", lambda: "int_2_roman(%d)=%r, canonical %r" % (n, r, exp))
            back = guard(ctx, "roman_2_int", lambda: G.roman_2_int(exp))
            ctx.need(back == n, "generic/roman_2_int/not-inverse", lambda: "roman_2_int(%r)=%r, expected %d" % (exp, back, n))
            if any(d in (4, 9) for d in (n % 10, n // 10 % 10, n // 100 % 10)):
                ctx.label("subtractive")
        ctx.nontrivial = True
        ctx.label("roman")
    elif k == "argsort":
        xs, rev = case["xs"], case["reverse"]
        got = guard(ctx, "arg_sort", lambda: G.arg_sort(xs, rev))
        exp = stable_argsort(xs, rev)
        ctx.need(got == exp, "generic/arg_sort/not-stable-sorting-permutation",
                 lambda: "arg_sort(%r, reverse=%r)=%r, stable permutation is %r" % (xs, rev, got, exp))
        if not rev:
            got2 = guard(ctx, "arg_sort", lambda: G.arg_sort(xs))
            ctx.need(got2 == exp, "generic/arg_sort/not-stable-sorting-permutation", "default reverse differs")
        if len(set(xs)) < len(xs):
            ctx.nontrivial = True
            ctx.label("argsort-tie")
        ctx.label("argsort")
    elif k == "subseq":
        s1, s2 = conv(case["s1"], case["type"]), conv(case["s2"], case["type"])
        occ = [(o, o + len(s1)) for o in range(0, len(s2) - len(s1) + 1) if s2[o:o + len(s1)] == s1]
        got = guard(ctx, "sub_seq", lambda: G.sub_seq(s1, s2))
        ctx.need(got is bool(occ) or got == bool(occ), "generic/sub_seq/wrong",
                 lambda: "sub_seq(%r,%r)=%r, occurrences %r" % (s1, s2, got, occ))
        if len(s1) == 0 or len(s2) == 0:
            try:
                G.search_sub_seq(s1, s2)
                ctx.fail("generic/search_sub_seq/no-ValueError", "empty argument accepted: %r %r" % (s1, s2))
            except ValueError:
                pass
            except Exception as e:  # noqa
                ctx.fail("generic/search_sub_seq/exception-%s" % type(e).__name__, repr(e))
        else:
            got = guard(ctx, "search_sub_seq", lambda: G.search_sub_seq(s1, s2))
            ctx.need(got == occ, "generic/search_sub_seq/wrong",
                     lambda: "search_sub_seq(%r,%r)=%r, expected %r" % (s1, s2, got, occ))
        if len(occ) >= 2:
            ctx.nontrivial = True
            ctx.label("multi-occurrence")
            if any(b[0] < a[1] for a, b in zip(occ, occ[1:])):
                ctx.label("overlapping-occurrence")
        ctx.label("subseq")
    elif k == "cmp":
        a, b = case["a"], case["b"]
        got = guard(ctx, "compare_pos_in_iterables", lambda: G.compare_pos_in_iterables(iter(a), iter(b)))
        exp = collections.Counter(a) == collections.Counter(b)
        ctx.need(got == exp, "generic/compare_pos_in_iterables/wrong",
                 lambda: "compare(%r,%r)=%r expected %r" % (a, b, got, exp))
        # the helpers are functions of their arguments: given lists (not iterators) they leave them as they were, the same call
        # gives the same answer again, and the same list may be passed on both sides
        la, lb = list(a), list(b)
        again = [guard(ctx, "compare_pos_in_iterables", lambda: G.compare_pos_in_iterables(la, lb)) for _ in range(2)]
        ctx.need(again == [exp, exp] and la == list(a) and lb == list(b), "generic/compare_pos_in_iterables/changes-its-arguments",
                 lambda: "compare(list %r, list %r) twice gave %r (expected %r twice); the lists are now %r and %r" % (a, b, again, exp, la, lb))
        same = guard(ctx, "compare_pos_in_iterables", lambda: G.compare_pos_in_iterables(la, la))
        ctx.need(same is True and la == list(a), "generic/compare_pos_in_iterables/not-reflexive-on-one-list-object",
                 lambda: "compare(x, x) with x=%r gave %r, x is now %r" % (a, same, la))
        if len(a) == len(b) and len(a) >= 2 and set(a) == set(b):
            ctx.nontrivial = True
            ctx.label("cmp-same-support")
        ctx.label("cmp")
    elif k == "batch":
        n, bs, width = case["n"], case["bs"], case["width"]
        xs = case.get("xs") or list(range(n))
        xs = xs[:n] if len(xs) >= n else list(range(n))
        typ = case.get("type", "list")
        if width == 1 and typ == "tuple":
            typ = "list"  # a tuple is, by documentation, a tuple of sequences
        data0 = conv([x % 3 for x in xs], typ) if typ == "str" else conv(xs, typ)
        cols = [data0] + [conv([(x + 7 * j) % 3 for x in xs], typ) if typ == "str" else conv([x + 100 * j for x in xs], typ)
                          for j in range(1, width)]
        if bs <= 0:
            for cls, arg in ((G.Batcher, tuple(cols) if width > 1 else cols[0]), (G.BatcherIter, iter(list(data0)))):
                try:
                    cls(arg, bs)
                    ctx.fail("generic/%s/no-ValueError" % cls.__name__, "batch_size %d accepted" % bs)
                except ValueError:
                    pass
            ctx.label("batch-invalid-size")
            return
        nb = math.ceil(n / bs)
        exp_batches = [[c[i * bs:(i + 1) * bs] for c in cols] for i in range(nb)]
        data = tuple(cols) if width > 1 else cols[0]
        B = guard(ctx, "Batcher", lambda: G.Batcher(data, bs))
        if B is not None:
            ln = guard(ctx, "Batcher.__len__", lambda: len(B))
            ctx.need(ln == nb, "generic/Batcher/len", lambda: "len=%r expected ceil(%d/%d)=%d" % (ln, n, bs, nb))
            for i in range(nb):
                got = guard(ctx, "Batcher.__getitem__", lambda: B[i])
                exp = tuple(exp_batches[i]) if width > 1 else exp_batches[i][0]
                ctx.need(got == exp and type(got) is type(exp), "generic/Batcher/batch",
                         lambda: "n=%d bs=%d batch %d = %r expected %r" % (n, bs, i, got, exp))
            # a Batcher is a stateless view: reverse order, repeated access and iteration through the sequence protocol agree
            exp_all = [tuple(b) if width > 1 else b[0] for b in exp_batches]
            rev = guard(ctx, "Batcher.__getitem__", lambda: [B[i] for i in reversed(range(nb))] + ([B[0]] if nb else []))
            ctx.need(rev == list(reversed(exp_all)) + exp_all[:1], "generic/Batcher/batch-depends-on-access-order",
                     lambda: "n=%d bs=%d: batches read in reverse order %r expected %r" % (n, bs, rev, list(reversed(exp_all)) + exp_all[:1]))
            seq = guard(ctx, "Batcher-iteration", lambda: common_take(B, nb + 2))
            ctx.need(seq == exp_all, "generic/Batcher/iteration", lambda: "n=%d bs=%d: iterating the Batcher gives %r expected %r" % (n, bs, seq, exp_all))
            for bad in (nb, nb + 1):
                try:
                    B[bad]
                    ctx.fail("generic/Batcher/no-IndexError", "index %d accepted with %d batches" % (bad, nb))
                except IndexError:
                    pass
                except Exception as e:  # noqa
                    ctx.fail("generic/Batcher/exception-%s" % type(e).__name__, repr(e))
        if B is not None and width == 1 and typ == "list":
            # the wrapped list changes after the Batcher was made (it is a view, not a copy - or a copy, the statement does not
            # say): what it presents afterwards must be the batches of ONE list, the current one or the one it was made from
            data = list(cols[0])          # a Batcher of its own, so that the parts below still see the original columns
            B = G.Batcher(data, bs)
            len(B)
            old_data = list(data)
            if (n + bs) % 2:
                data.extend([901, 902, 903][:1 + n % 3])
            elif data:
                del data[-(1 + n % 2):]
            else:
                data.append(900)

            def present():
                ln2 = len(B)
                got2 = [B[i] for i in range(ln2)]
                try:
                    B[ln2]
                    got2.append("no IndexError at len")
                except IndexError:
                    pass
                return ln2, got2
            seen2 = guard(ctx, "Batcher-after-the-data-changed", present)

            def view(d):
                k = math.ceil(len(d) / bs)
                return k, [d[i * bs:(i + 1) * bs] for i in range(k)]
            ctx.need(seen2 in (view(old_data), view(list(data))), "generic/Batcher/inconsistent-after-the-data-changed",
                     lambda: "bs=%d data %r -> %r: Batcher presents len=%r batches=%r" % (bs, old_data, list(data), seen2[0], seen2[1]))
            ctx.label("batcher-data-changed-after-construction")
        # BatcherIter: lists of items; unequal lengths -> shortest wins
        cut = case.get("cut", 0)
        lens = [n] + [max(0, n - cut)] * (width - 1)
        its = [iter(list(c)[:l]) for c, l in zip(cols, lens)]
        m = min(lens)
        nbi = math.ceil(m / bs)
        exp_it = [[list(c)[i * bs:min((i + 1) * bs, m)] for c in cols] for i in range(nbi)]
        got = guard(ctx, "BatcherIter", lambda: common_take(G.BatcherIter(tuple(its) if width > 1 else its[0], bs), nbi + 2))
        if got is not None:
            exp = [tuple(b) for b in exp_it] if width > 1 else [b[0] for b in exp_it]
            ctx.need(got == exp, "generic/BatcherIter/batches",
                     lambda: "n=%d bs=%d width=%d cut=%d: %r expected %r" % (n, bs, width, cut, got, exp))
        if width > 1:
            # a tuple of re-iterable columns: every iteration of one BatcherIter starts afresh, too
            bi = G.BatcherIter(tuple(cols), bs)
            if n % 2:
                guard(ctx, "BatcherIter", lambda: common_take(bi, 1))
            one = guard(ctx, "BatcherIter", lambda: common_take(bi, nb + 2))
            two = guard(ctx, "BatcherIter", lambda: common_take(bi, nb + 2))
            expt = [tuple(list(c) for c in b) for b in exp_batches]
            ctx.need(one == expt and two == expt, "generic/BatcherIter/second-iteration-differs",
                     lambda: "n=%d bs=%d width=%d: first iteration %r second %r expected %r" % (n, bs, width, one, two, expt))
        if width == 1 and typ != "gen":
            # over a re-iterable input every iteration of one BatcherIter starts afresh
            bi = G.BatcherIter(cols[0], bs)
            if n % 2:
                guard(ctx, "BatcherIter", lambda: common_take(bi, 1))     # an abandoned iteration (a `break`) comes first
            one = guard(ctx, "BatcherIter", lambda: common_take(bi, nb + 2))
            two = guard(ctx, "BatcherIter", lambda: common_take(bi, nb + 2))
            expl = [list(b[0]) for b in exp_batches]
            ctx.need(one == expl and two == expl, "generic/BatcherIter/second-iteration-differs",
                     lambda: "n=%d bs=%d: first iteration %r second %r expected %r" % (n, bs, one, two, expl))
        if n % bs != 0 and n > bs:
            ctx.nontrivial = True
            ctx.label("partial-last-batch")
        if width > 1:
            ctx.label("tuple-input")
        if cut and width > 1:
            ctx.label("unequal-iter-lengths")
        ctx.label("batch")
    else:
        raise AssertionError("unknown kind %r" % k)


def common_take(it, n):
    return list(itertools.islice(iter(it), n))


# ------------------------------------------------------------------------------------------ generators

def enum_roman():
    for lo in range(1, 4000, 50):
        yield {"kind": "roman", "lo": lo, "hi": min(4000, lo + 50)}


def enum_subseq():
    for typ in ("list", "tuple", "str"):
        for l1 in range(0, 5):
            for s1 in itertools.product((0, 1), repeat=l1):
                for l2 in range(0, 8):
                    for s2 in itertools.product((0, 1), repeat=l2):
                        yield {"kind": "subseq", "s1": list(s1), "s2": list(s2), "type": typ}


def enum_batch():
    for n in range(0, 13):
        for bs in range(-1, 15):
            for width in (1, 2, 3):
                for typ in (("list", "str") if width == 1 else ("list", "tuple", "str")):
                    for cut in ((0,) if width == 1 else (0, 1, 3)):
                        yield {"kind": "batch", "n": n, "bs": bs, "width": width, "type": typ, "cut": cut}


def enum_argsort():
    for n in range(0, 7):
        for xs in itertools.product((0, 1, 2), repeat=n):
            for rev in (False, True):
                yield {"kind": "argsort", "xs": list(xs), "reverse": rev}


def enumerations(tier):
    return [("roman-1..3999", enum_roman, True), ("subseq-2letters-4x7", enum_subseq, True),
            ("batch-n<=12-bs<=14", enum_batch, True), ("argsort-len<=6-3values", enum_argsort, True)]


def strategies(tier):
    big = tier == "thorough"
    argsort = st.fixed_dictionaries({"kind": st.just("argsort"),
                                     "xs": st.lists(st.one_of(st.integers(0, 3), st.sampled_from([0.5, -1, 2.0, 10 ** 20])), max_size=14),
                                     "reverse": st.booleans()})
    subseq = st.fixed_dictionaries({"kind": st.just("subseq"), "s1": st.lists(st.integers(0, 2), max_size=5),
                                    "s2": st.lists(st.integers(0, 2), max_size=24),
                                    "type": st.sampled_from(["list", "tuple", "str"])})
    cmp_ = st.fixed_dictionaries({"kind": st.just("cmp"), "a": st.lists(st.integers(0, 3), max_size=8),
                                  "b": st.lists(st.integers(0, 3), max_size=8)})
    cmp_perm = st.lists(st.integers(0, 3), max_size=8).flatmap(
        lambda a: st.fixed_dictionaries({"kind": st.just("cmp"), "a": st.just(a), "b": st.permutations(a)}))
    batch = st.fixed_dictionaries({"kind": st.just("batch"), "n": st.integers(0, 60), "bs": st.integers(1, 25),
                                   "width": st.integers(1, 3), "type": st.sampled_from(["list", "tuple", "str"]),
                                   "cut": st.integers(0, 5), "xs": st.lists(st.integers(0, 9), max_size=60)})
    mix = st.one_of(argsort, subseq, cmp_, cmp_perm, batch)
    return [("drawn", mix, 1000000 if big else 12000)]
