"""C11 — line files: indexing, slicing and iteration return exactly the file's lines (E1)."""
from hypothesis import strategies as st

from . import filegen as FG
from ..common import codes, Violation

ID = "C11"
LEVEL = "exploration"
RULE = ("Cases: file content = lines joined by '\\n' with optional final '\\n'; lines drawn from atoms rich in corner cases (empty line, "
        "blanks/tabs at both ends, '\\r' alone / at the end / in the middle, 2-, 3- and 4-byte UTF-8, NEL/FF, a line of 9 000 and of "
        "70 200 characters); variant in the 8 line/record file classes (mutable ones unmodified); index source in {built by the class, "
        "list computed from the bytes, index file, subset, permutation}; then a read programme of 1..30 operations: f[i] (positive, "
        "negative, out of range), slices (all sign/step combinations), index iterables, len, list(f), open iterator j, advance iterator "
        "j. Oracle: the Python list content.split('\\n') (minus the empty tail), restricted/permuted by a supplied index; IndexError "
        "parity; each iterator advances through its own copy of that list. Non-trivial: >=2 lines and one of {multi-byte char, '\\r', "
        "line > buffer, unterminated last line}, or an index/iterator operation between two advances of another iterator, or a "
        "subset/permutation index. Distinct = distinct case JSON.")
EXPLANATION = ""
ASSUMPTIONS = ["PYTHONUTF8=1 pins the default text encoding to UTF-8 (set by ./check)",
               "the memory-mapped variants are not given an empty file (the OS cannot map one; stated in the property)"]
FLOORS = {"cr": (0.2, None), "multi-byte": (0.25, None), "interleaved-iteration": (0.03, None), "custom-index": (0.111, None), "long-line": (0.02, None)}
SHARDS = {"quick": 12, "thorough": 14}

OPS = ["open_it", "adv", "idx", "adv", "slice", "adv", "sel", "len", "list", "open_it", "adv", "idx", "adv", "adv", "reopen", "idx"]


def dec(c):
    op = OPS[c % len(OPS)]
    x = c // len(OPS)
    if op == "idx":
        return [op, x % 19 - 9]
    if op == "slice":
        a = x % 12
        b = (x // 12) % 12
        s = (x // 144) % 6
        return [op, None if a == 11 else a - 5, None if b == 11 else b - 5, [None, 1, 2, -1, -2, 3][s]]
    if op == "sel":
        n = x % 4
        return [op, [(x // 4 // (7 ** i)) % 7 for i in range(n)]]
    if op in ("open_it", "adv"):
        return [op, x % 3]
    return [op]


def run_case(case, ctx):
    cls, mm, rec = FG.VARIANTS[case["variant"]]
    content = FG.content_of(case["lines"], case["final_nl"])
    raw = content.encode("utf-8")
    if not raw and mm:
        ctx.label("skipped-empty-mmap")
        return
    ref = FG.reference_lines(content)
    offs = FG.offsets_of(ref)
    sel = list(range(len(ref)))
    isrc = case["index"]
    name = case["variant"]
    with FG.Scratch() as sc:
        src = sc.write("src.txt", raw)
        arg = None
        if isrc == "list":
            arg = list(offs)
        elif isrc == "file":
            arg = sc.write("src.idx", "".join("%d\n" % x for x in offs).encode())
        elif isrc in ("subset", "perm"):
            picks = case.get("picks", [])
            pool = list(range(len(ref)))
            if isrc == "subset":
                keep = [i for i in pool if picks and picks[i % len(picks)] % 3 != 0]
                sel = keep
            else:
                sel = []
                for j in range(len(pool)):
                    p = picks[j % len(picks)] if picks else 0
                    sel.append(pool.pop(p % len(pool)))
            arg = [offs[i] for i in sel]
            ctx.label("custom-index")
        if case.get("index_via_file") and isrc in ("file", "subset", "perm") and arg is not None:
            # the index comes from an index file whose path has been used before, for another selection of the lines of the same
            # file (an object was built from it and read): every object honours the index file as it is when the object is built
            real = arg if isinstance(arg, list) else list(offs)
            path = sc.path("lines.idx")
            decoy = list(reversed(offs)) if len(offs) >= 2 else [0] * len(offs)
            with open(path, "w") as fh:
                fh.write("".join("%d\n" % x for x in decoy))
            try:
                g = cls(src, FG.TextRecord, path) if rec else cls(src, path)
                with g:
                    if len(g) != len(decoy):
                        ctx.fail("line-file/len/wrong", "index file with %d offsets gives len %d" % (len(decoy), len(g)))
                    if decoy:
                        g[0]
            except Violation:
                raise
            except Exception as e:  # noqa
                ctx.fail("line-file/init/exception-%s" % type(e).__name__, "index file: %r" % (e,))
                return
            with open(path, "w") as fh:
                fh.write("".join("%d\n" % x for x in real))
            arg = path
            ctx.label("index-file-path-reused")
        exp = [ref[i] for i in sel]
        if rec:
            exp = [FG.TextRecord(x) for x in exp]

        def fail(what, msg):
            ctx.fail("%s/%s" % ("line-file", what), "%s (%s, index=%s): %s" % (what, name, isrc, msg))

        try:
            f = cls(src, FG.TextRecord, arg) if rec else cls(src, arg)
        except Exception as e:  # noqa
            fail("init/exception-%s" % type(e).__name__, repr(e))
            return
        its = {}
        last_adv = None  # (iterator id) of the most recent advance, to detect interleaving
        between = False
        try:
            with f:
                ln = len(f)
                if ln != len(exp):
                    fail("len/wrong", "len()=%d, the file has %d '\\n'-delimited lines (selected %d)" % (ln, len(ref), len(exp)))
                    return
                for o in case["prog"]:
                    k = o[0]
                    if k == "idx":
                        try:
                            e, err = exp[o[1]], None
                        except IndexError:
                            e, err = None, IndexError
                        try:
                            g, gerr = f[o[1]], None
                        except IndexError:
                            g, gerr = None, IndexError
                        if err != gerr:
                            fail("getitem/IndexError-parity", "f[%d] with %d lines: %s vs list %s" % (o[1], len(exp), gerr, err))
                        elif err is None and g != e:
                            fail("getitem/wrong-line", "f[%d]=%r, expected %r" % (o[1], short(g), short(e)))
                        between = True
                    elif k == "slice":
                        sl = slice(o[1], o[2], o[3])
                        g = f[sl]
                        if g != exp[sl]:
                            fail("slice/wrong", "f[%r]=%r expected %r" % (sl, short(g), short(exp[sl])))
                        between = True
                    elif k == "sel":
                        s = [i % len(exp) for i in o[1]] if exp else []
                        g = f[s]
                        if g != [exp[i] for i in s]:
                            fail("iterable-selector/wrong", "f[%r]=%r expected %r" % (s, short(g), short([exp[i] for i in s])))
                        g = f[iter(s)]
                        if g != [exp[i] for i in s]:
                            fail("iterable-selector/wrong", "f[iter(%r)] differs" % (s,))
                        g = f[tuple(s)]
                        if g != [exp[i] for i in s]:
                            fail("iterable-selector/wrong", "f[tuple(%r)] differs" % (s,))
                        if s:
                            r_ = range(min(s), max(s) + 1)
                            g = f[r_]
                            if g != [exp[i] for i in r_]:
                                fail("iterable-selector/wrong", "f[%r] differs" % (r_,))
                        between = True
                    elif k == "len":
                        if len(f) != len(exp):
                            fail("len/wrong", "len changed")
                    elif k == "reopen":
                        # close and open the same object again: later reads must be unaffected (iterators opened before are dropped)
                        f.close()
                        f.open()
                        its.clear()
                        last_adv = None
                        ctx.label("reopened")
                    elif k == "list":
                        g = list(f)
                        if g != exp:
                            fail("iteration/wrong", "list(f)=%r expected %r" % (short(g), short(exp)))
                        between = True
                    elif k == "open_it":
                        its[o[1]] = [iter(f), 0]
                    elif k == "adv":
                        if o[1] not in its:
                            continue
                        it, pos = its[o[1]]
                        if pos > 0 and (between or (last_adv is not None and last_adv != o[1])):
                            ctx.label("interleaved-iteration")
                            if len(exp) >= 2:
                                ctx.nontrivial = True
                        try:
                            g, end = next(it), False
                        except StopIteration:
                            g, end = None, True
                        if pos >= len(exp):
                            if not end:
                                fail("iteration/too-long", "iterator yields more than len() items")
                            del its[o[1]]
                        else:
                            if end:
                                fail("iteration/too-short", "iterator ended after %d of %d lines" % (pos, len(exp)))
                                del its[o[1]]
                            elif g != exp[pos]:
                                fail("iteration/wrong-line-when-interleaved" if ("interleaved-iteration" in ctx.labels) else "iteration/wrong",
                                     "advance no. %d of an iterator returned %r, expected %r" % (pos, short(g), short(exp[pos])))
                            if o[1] in its:
                                its[o[1]][1] = pos + 1
                        last_adv = o[1]
                        between = False
        except Violation:
            raise
        except Exception as e:  # noqa
            fail("exception-%s" % type(e).__name__, "unexpected %r" % (e,))
            return
    # classification
    if any("\r" in l for l in ref):
        ctx.label("cr")
    if any(ord(ch) > 127 for l in ref[:50] for ch in l[:50]):
        ctx.label("multi-byte")
    if any(len(l) > 8192 for l in ref):
        ctx.label("long-line")
    if raw and not raw.endswith(b"\n"):
        ctx.label("unterminated-last-line")
    if len(ref) >= 2 and ctx.labels & {"cr", "multi-byte", "long-line", "unterminated-last-line"}:
        ctx.nontrivial = True
    if "custom-index" in ctx.labels and len(ref) >= 2:
        ctx.nontrivial = True
    ctx.label("mmap" if mm else "buffered")
    if rec:
        ctx.label("record-variant")


def short(x):
    if isinstance(x, list):
        return [short(y) for y in x[:6]]
    if isinstance(x, FG.TextRecord):
        x = x.t
    if isinstance(x, str) and len(x) > 40:
        return x[:20] + "...(%d chars)" % len(x)
    return x


def strategies(tier):
    big = tier == "thorough"
    case = st.fixed_dictionaries({
        "variant": st.sampled_from(list(FG.VARIANTS)),
        "lines": st.one_of(st.lists(FG.line_strategy(), max_size=2), st.lists(FG.line_strategy(), min_size=2, max_size=7), st.lists(FG.line_strategy(), min_size=2, max_size=7)),
        "final_nl": st.booleans(),
        "index": st.sampled_from(["built", "built", "list", "file", "subset", "perm"]), "index_via_file": st.booleans(),
        "picks": st.lists(st.integers(0, 7), min_size=1, max_size=7),
        "prog": st.one_of(codes(1, 8), codes(8, 30), codes(10, 30)).map(lambda cs: [dec(c) for c in cs]),
    })
    return [("read-programmes", case, 600000 if big else 8000)]


def enumerations(tier):
    return []
