"""C14 — TextFileStorage: what is stored under an id is what any process reads back.

Sequential part (E1, real manager, real forked writer processes driven one command at a time) here;
the concurrent part (E2, harness-owned scheduler) is in c14_sched.py and registered as further parts.
"""
import multiprocessing
import os

from hypothesis import strategies as st

from . import filegen as FG
from ..common import codes, Violation, Inconclusive

ID = "C14"
LEVEL = "exploration"
RULE = ("Sequential cases: a TextFileStorage (optionally pre-sized index) driven by a history of stores (ids with gaps, reversed, "
        "duplicates), reads (present, absent, beyond the index), len, is_contiguous, list(storage), close/reopen and flush; either the "
        "creating process is the only writer, or 1..3 forked writer processes (each with its own file) execute the stores one command "
        "at a time while the parent reads (in half of those cases as a reader_only storage; store-store-read-reopen-read segments spliced in). Oracle: reference dict id->text (read returns the text or IndexError; second store raises "
        "ValueError and changes nothing; len == number of ids; is_contiguous <=> ids == 0..len-1; iteration == texts in id order "
        "skipping gaps; after flush no file is left, len == 0 and the storage accepts new stores). Concurrent cases (scheduler): see "
        "c14_sched. Non-trivial: a history with a gap at the time of an iteration/is_contiguous, or a pre-sized index, or a flush "
        "followed by a store, or (concurrent) a read that started between index publication and completion of the same id's write. "
        "Distinct = distinct case JSON (sequential) / distinct interleaving signature (concurrent).")
EXPLANATION = ""
ASSUMPTIONS = ["texts are single-line without '\\n'/'\\r'", "flush() is called with the storage closed in every process (documented precondition)"]
FLOORS = {"gap": (0.3, "seq")}
SHARDS = {"quick": 12, "thorough": 14}
CASE_FUEL = None
WALL_GUARD = {"quick": 1500, "thorough": 8 * 3600}


def shard_setup(shard, nshards):
    from . import poolcases
    poolcases.pin_shard(shard, nshards)


def minimize(case, sig):
    if case.get("kind") == "conc":
        from . import c14_sched
        return c14_sched.minimize(case, sig)
    return case

TEXTS = ["a", "b", "text é", "€𝄞", "x y", "\tz", "0", "line, with; punctuation", "A" * 200, "ends in blank ", "tab\t", " ", "nbsp\xa0", "ff\x0c", ""]
SEQ_OPS = ["store", "store", "store", "read", "read", "len", "contig", "list", "reopen", "flush", "store", "read", "list", "store"]


def dec(c):
    op = SEQ_OPS[c % len(SEQ_OPS)]
    x = c // len(SEQ_OPS)
    if op == "store":
        return [op, x % 3, (x // 3) % 10, ("#%d" % ((x // 300) % 7) if (x // 30) % len(TEXTS) < len(TEXTS) - 1 else "") + TEXTS[(x // 30) % len(TEXTS)]]
    if op == "read":
        return [op, x % 3, (x // 3) % 13]
    return [op]


def writer_loop(storage, conn):
    storage.reader_only = False     # (the parent may have declared itself a reader before this process was forked)
    try:
        while True:
            cmd = conn.recv()
            try:
                if cmd[0] == "store":
                    storage[cmd[1]] = cmd[2]
                    conn.send(("ok", None))
                elif cmd[0] == "read":
                    conn.send(("ok", storage[cmd[1]]))
                elif cmd[0] == "close":
                    storage.close()
                    conn.send(("ok", None))
                    return
            except ValueError:
                conn.send(("ValueError", None))
            except IndexError:
                conn.send(("IndexError", None))
            except Exception as e:  # noqa
                conn.send(("exc", repr(e)))
    except EOFError:
        pass
    finally:
        os._exit(0)


class Writers:
    def __init__(self, storage):
        self.storage = storage
        self.procs = {}
        self.mp = multiprocessing.get_context("fork")

    def call(self, w, cmd):
        if w not in self.procs:
            a, b = self.mp.Pipe()
            p = self.mp.Process(target=writer_loop, args=(self.storage, b))
            p.daemon = True
            p.start()
            b.close()
            self.procs[w] = (p, a)
        p, conn = self.procs[w]
        conn.send(cmd)
        if not conn.poll(60):
            raise Inconclusive("writer process gave no reply within 60 s")
        return conn.recv()

    def close_all(self):
        for w, (p, conn) in list(self.procs.items()):
            try:
                conn.send(("close",))
                if conn.poll(30):
                    conn.recv()
            except (OSError, EOFError):
                pass
            p.join(10)
            if p.is_alive():
                p.kill()
                p.join()
            conn.close()
        self.procs = {}


def run_seq(case, ctx):
    from windpyutils.parallel.storage import TextFileStorage
    ctx.label("seq")
    nw = case["writers"]
    presize = case["presize"]

    def fail(what, msg):
        ctx.fail("TextFileStorage/%s" % what, "%s (writers=%d, presize=%r): %s" % (what, nw, presize, msg))

    with FG.Scratch() as sc:
        d = sc.path("st")
        os.mkdir(d)
        s = TextFileStorage(d, number_of_data=presize)
        writers = Writers(s)
        ref = {}
        flushed = False
        ro = bool(nw and case.get("parent_reader_only"))
        if ro:
            # the parent only reads (all stores go through the writer processes): it declares itself a reader, as reader processes do
            s.reader_only = True
            ctx.label("parent-is-reader-only")
        try:
            if presize:
                ctx.label("pre-sized")
                ctx.nontrivial = True
            for o in case["ops"]:
                k = o[0]
                if k == "store":
                    w, gid, text = o[1] % (nw + 1) if nw else 0, o[2], o[3]
                    if nw == 0:
                        try:
                            s[gid] = text
                            res = "ok"
                        except ValueError:
                            res = "ValueError"
                    else:
                        res, _ = writers.call(1 + (o[1] % nw), ("store", gid, text))
                    if gid in ref:
                        if res != "ValueError":
                            fail("store/second-store-accepted", "second store under id %d gave %r instead of ValueError" % (gid, res))
                            return
                        ctx.label("duplicate-store")
                    else:
                        if res != "ok":
                            fail("store/rejected", "store under fresh id %d gave %r" % (gid, res))
                            return
                        ref[gid] = text
                        if flushed:
                            ctx.label("store-after-flush")
                            ctx.nontrivial = True
                elif k == "read":
                    gid = o[2]
                    if nw and o[1] % 2:
                        res, val = writers.call(1 + (o[1] % nw), ("read", gid))
                        who = "writer process"
                    else:
                        try:
                            val = s[gid]
                            res = "ok"
                        except IndexError:
                            res, val = "IndexError", None
                        who = "parent"
                    if gid in ref:
                        if res != "ok" or val != ref[gid]:
                            fail("read/wrong", "%s read of id %d gave %s %r, stored text is %r" % (who, gid, res, val, ref[gid]))
                            return
                    elif res != "IndexError":
                        fail("read/no-IndexError", "%s read of absent id %d gave %s %r" % (who, gid, res, val))
                        return
                elif k == "reopen":
                    if nw == 0:
                        s.close()
                        s.open()
                    else:
                        s.close()   # drops the parent's read handles
                        if ro:
                            s.open()    # a no-op for a reader; the next read opens its own handles again
                elif k == "flush":
                    writers.close_all()
                    s.close()
                    s.flush()
                    ref = {}
                    flushed = True
                    left = os.listdir(d)
                    if left:
                        fail("flush/files-left", "files left after flush: %r" % left)
                        return
                    ctx.label("flush")
                # invariants after every step
                if len(s) != len(ref):
                    fail("len/wrong", "len()=%d, %d ids stored (after %r)" % (len(s), len(ref), o))
                    return
                contig = set(ref) == set(range(len(ref)))
                got = s.is_contiguous()
                if bool(got) != contig:
                    fail("is_contiguous/wrong", "is_contiguous()=%r with stored ids %r" % (got, sorted(ref)))
                    return
                if k in ("list", "store", "flush"):
                    exp = [ref[g] for g in sorted(ref)]
                    it = list(s)
                    if it != exp:
                        fail("iteration/wrong", "iteration yields %r, stored (in id order) %r, ids %r" % (it, exp, sorted(ref)))
                        return
                    if not contig and ref:
                        ctx.label("gap")
                        ctx.nontrivial = True
        except Violation:
            raise
        except Inconclusive:
            raise
        except Exception as e:  # noqa
            fail("exception-%s" % type(e).__name__, "unexpected %r" % (e,))
        finally:
            writers.close_all()
            try:
                s.close()
            except Exception:  # noqa
                pass
            try:
                s._manager.shutdown()
            except Exception:  # noqa
                pass


def _real_writer(storage, w, ids, conn):
    import time
    from .c14_sched import text_of
    res = []
    try:
        storage.open()
        for g in ids:
            try:
                storage[g] = text_of(w, g)
                res.append((g, "ok"))
            except ValueError:
                res.append((g, "ValueError"))
            time.sleep(0.0005)
        storage.close()
        conn.send(res)
    finally:
        os._exit(0)


def _real_reader(storage, ids, rounds, conn):
    res = []
    try:
        storage.reader_only = True
        for _ in range(rounds):
            for g in ids:
                try:
                    res.append((g, storage[g]))
                except IndexError:
                    res.append((g, None))
        storage.close()
        conn.send(res)
    finally:
        os._exit(0)


def run_real_conc(case, ctx):
    """reality tier (E4): real writer and reader processes on one storage, OS-chosen interleaving, value oracle only"""
    from windpyutils.parallel.storage import TextFileStorage
    from .c14_sched import text_of
    ctx.label("real-concurrent")
    ctx.nontrivial = True
    mp = multiprocessing.get_context("fork")
    with FG.Scratch() as sc:
        d = sc.path("st")
        os.mkdir(d)
        s = TextFileStorage(d, number_of_data=case.get("presize"))
        procs = []
        try:
            conns = []
            for w, ids in enumerate(case["writers"]):
                a, b = mp.Pipe()
                p = mp.Process(target=_real_writer, args=(s, w, ids, b))
                procs.append(p)
                conns.append(("w", w, a))
            for r, ids in enumerate(case["readers"]):
                a, b = mp.Pipe()
                p = mp.Process(target=_real_reader, args=(s, ids, 40, b))
                procs.append(p)
                conns.append(("r", r, a))
            for p in procs:
                p.start()
            results = []
            for kind, i, a in conns:
                if not a.poll(120):
                    raise Inconclusive("a real storage process gave no result within 120 s")
                results.append((kind, i, a.recv()))
            for p in procs:
                p.join(30)
            cands = {}
            for w, ids in enumerate(case["writers"]):
                for g in ids:
                    cands.setdefault(g, set()).add(text_of(w, g))
            ok = {}
            for kind, i, res in results:
                if kind == "w":
                    for g, r_ in res:
                        if r_ == "ok":
                            ok.setdefault(g, []).append(i)
                else:
                    for g, v in res:
                        if v is not None and v not in cands.get(g, ()):
                            ctx.fail("TextFileStorage/real-concurrent/%s" % ("empty-read" if v == "" else "partial-or-foreign-read"),
                                     "a reader process read id %d -> %r, texts stored under it: %r" % (g, v, sorted(cands.get(g, ()))))
            for g, ws in ok.items():
                if len(ws) > 1:
                    ctx.fail("TextFileStorage/real-concurrent/two-stores-under-one-id-accepted", "id %d stored by writers %r" % (g, ws))
            ids = sorted(ok)
            if len(s) != len(ids):
                ctx.fail("TextFileStorage/real-concurrent/final-len-wrong", "len %d, stored ids %r" % (len(s), ids))
            if bool(s.is_contiguous()) != (ids == list(range(len(ids)))):
                ctx.fail("TextFileStorage/real-concurrent/final-is_contiguous-wrong", "ids %r" % (ids,))
            s.reader_only = True
            it = list(s)
            if len(it) != len(ids) or any(t not in cands[g] for t, g in zip(it, ids)):
                ctx.fail("TextFileStorage/real-concurrent/final-iteration-wrong", "iteration %r for ids %r" % (it, ids))
        finally:
            for p in procs:
                if p.is_alive():
                    p.kill()
            try:
                s.close()
            except Exception:  # noqa
                pass
            try:
                s._manager.shutdown()
            except Exception:  # noqa
                pass


def run_case(case, ctx):
    if case["kind"] == "seq":
        run_seq(case, ctx)
    elif case["kind"] == "real-conc":
        run_real_conc(case, ctx)
    else:
        from . import c14_sched
        c14_sched.run_case(case, ctx)


def strategies(tier):
    big = tier == "thorough"
    # spliced-in segments "store two ids through one writer - parent reads the first - close/reopen - parent reads the second":
    # a remembered read position that survives close() (round 17) needs two reads around the reopen with nothing in between
    code = st.integers(0, 2 ** 24 - 1)
    seg = st.one_of(code.map(lambda c: [dec(c)]),
                    st.tuples(st.integers(0, 2), st.integers(0, 9), st.integers(0, 9)).map(
                        lambda t: [["store", t[0], t[1], "#1 first"], ["store", t[0], t[2], "#2 second é"], ["read", 0, t[1]], ["reopen"], ["read", 0, t[2]]]))
    seg_ops = st.lists(seg, min_size=1, max_size=8).map(lambda ss: [o for sg in ss for o in sg])
    seq = st.fixed_dictionaries({"kind": st.just("seq"), "writers": st.sampled_from([0, 0, 1, 2, 3]),
                                 "presize": st.one_of(st.none(), st.none(), st.integers(0, 8)), "parent_reader_only": st.booleans(),
                                 "ops": st.one_of(codes(1, 8).map(lambda cs: [dec(c) for c in cs]), codes(6, 24).map(lambda cs: [dec(c) for c in cs]), seg_ops)})
    real = st.fixed_dictionaries({"kind": st.just("real-conc"),
                                  "writers": st.lists(st.lists(st.integers(0, 30), min_size=3, max_size=12), min_size=1, max_size=3),
                                  "readers": st.lists(st.lists(st.integers(0, 31), min_size=1, max_size=8), min_size=1, max_size=2),
                                  "presize": st.sampled_from([None, None, 0, 10, 40])})
    parts = [("sequential", seq, 60000 if big else 1500), ("real-concurrent-processes", real, 1500 if big else 28, {"shrink": False})]
    try:
        from . import c14_sched
        parts += c14_sched.strategies(tier)
    except ImportError:
        pass
    return parts


def enumerations(tier):
    try:
        from . import c14_sched
        return c14_sched.enumerations(tier)
    except ImportError:
        return []
