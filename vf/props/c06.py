"""C06 — LRUCache is a bounded mapping that evicts exactly the least recently used key (E1 + E5, fuel oracle)."""
from . import cachemodel as M

ID = "C06"
LEVEL = "exploration"
RULE = ("Cases: capacity 1..6, key type int/str/tuple, a history of <=40 operations from store, lookup (hit and miss), "
        "delete, membership, len, keys(), values(), items(), get, pop, popitem, clear, update, setdefault, == , and (a sixth of the histories) up to three runs of 3..1025 lookups of one key; after every "
        "operation content, size<=max_size, KeyError parity and iteration order are compared with a candidate-set "
        "reference model (membership may or may not count as a use; any order is admissible after values/items/==). "
        "A quarter of the drawn histories are sparse: no iteration after the steps, only len(), the operations' own results, the key set at evictions and a full observation after the last step. Every call runs under a line-count fuel, so non-termination is a verdict. E5: all histories up to length 3 (quick) / 4 "
        "(thorough) over 15 operations x 3 keys and length 4 / 5 over store/lookup/delete, capacities 1..2. Non-trivial: an eviction "
        "after a hit or re-store changed the recency order, or a view operation (values/items/==) on >=2 entries. "
        "Distinct = distinct case JSON.")
EXPLANATION = "exhaustive sub-domain: short histories over 3 keys for capacities 1 and 2 (see rule)"
ASSUMPTIONS = ["keys are hashable ints/strings/tuples; values are ints"]
FLOORS = {"eviction": (0.267, "hist>=10"), "view-op>=2": (0.262, "hist>=10")}
SHARDS = {"quick": 12, "thorough": 14}


def run_case(case, ctx):
    if len(case["ops"]) >= 10:
        ctx.label("hist>=10")
    M.drive(ctx, "lru", case["cap"], case["ops"], case.get("keytype", "int"), case.get("observe") == "sparse")


def strategies(tier):
    return [("histories", M.case_strategy("lru"), 3000000 if tier == "thorough" else 30000)]


def enumerations(tier):
    return [("short-histories-3keys-cap1..2", M.enum_small("lru", tier), True)]
