"""C05 — FunctorMap and mul_p_map return map(f, data) in input order (E2 scheduler + E5 sweeps)."""
import copy

from hypothesis import strategies as st

import windpyutils.buffers as wbuf
import windpyutils.parallel.maps as maps
import windpyutils.parallel.pools as pools
import windpyutils.parallel.workers as wk

from . import poolcases as PC
from ..common import Inconclusive, case_hash
from ..sched import core, dispatch, prims, schedules
from ..sched.core import S, Sched

ID = "C05"
LEVEL = "exploration"
RULE = ("Cases (a further part repeats them with items that are None, falsy values and empty containers and the identity as functor): FunctorMap with workers 1..3, chunk size 1..5, 1..3 calls on one instance (each consumed to exhaustion or by taking exactly len(data) results, zip/islice style), inputs of length 0..12 (shorter than the worker "
        "count included) as list / range / generator with drawn delays; mul_p_map with workers 1..3, length 0..10, 1..2 consecutive calls "
        "and a work-queue bound as on machines with 1..16 CPUs; the pipe behind each queue holds an unbounded number of items or (large payloads) only 1..2 undelivered items. pools.Queue and FunRunner.WORK_QUEUE/RESULTS_QUEUE are pipe-queue "
        "stand-ins (per-producer in-flight FIFO, delivery a scheduler step), worker processes are scheduler tasks on fork copies, the "
        "schedule is generated. Oracle: every call yields/returns [f(x) for x in data]; no deadlock; no result left in the results "
        "queue after a call; all workers finished after __exit__/return. E5: all schedules with <=1 (quick) / <=2 (thorough) deviations "
        "for three small configurations. Non-trivial: >=2 chunks reached the consumer out of index order, or get(False) raised Empty while "
        "a result was in flight, or len < workers, or a second call on the same map, or the schedule deviates from the base policy. "
        "Distinct = distinct (configuration, interleaving signature).")
EXPLANATION = "exhaustive sub-domain: all schedules with <=b deviations from two base policies for the listed small configurations"
ASSUMPTIONS = ["SimPipeQueue models multiprocessing.Queue (DESIGN.md §3 E2 table)", "worker processes are threads on fork copies"]
FLOORS = {"out-of-order-arrival": (0.05, "drawn"), "empty-input": (0.02, "drawn"), "repeated-call": (0.2, "drawn")}
SHARDS = {"quick": 14, "thorough": 14}
CASE_FUEL = None
HYP_SHRINK = False
WALL_GUARD = {"quick": 1500, "thorough": 8 * 3600}
SUT_FILES = (pools.__file__, maps.__file__, wk.__file__, wbuf.__file__)


def shard_setup(shard, nshards):
    PC.pin_shard(shard, nshards)


f = PC.P.f


class RecPipe(prims.SimPipeQueue):
    def __init__(self, maxsize=0, name="pipe", pipe_cap=None):
        super().__init__(maxsize, name, pipe_cap)
        self.got = []
        self.empty_while_inflight = 0

    def get(self, block=True, timeout=None):
        try:
            x = super().get(block, timeout)
        except Exception:
            if any(self.inflight.values()):
                self.empty_while_inflight += 1
            raise
        self.got.append(x)
        return x


class RecSimple(prims.SimQueue):
    """multiprocessing.SimpleQueue, should the code under test come to use one: no feeder thread - put() writes into the pipe
    itself and blocks while the pipe is full (capacity in items = pipe_cap, unbounded for small payloads)"""

    def __init__(self, name="simple", pipe_cap=None):
        super().__init__(pipe_cap or 0, name)
        self.rendezvous = pipe_cap == 0     # one item is larger than the pipe: the write completes only while a reader reads
        self.got = []
        self.inflight = {}
        self.empty_while_inflight = 0

    def put(self, x, block=True, timeout=None):
        super().put(x, block, timeout)
        if self.rendezvous:
            S().yield_point(lambda: not any(y is x for y in self.items), what=self.name + ".put:payload-larger-than-the-pipe")

    def get(self, block=True, timeout=None):
        x = super().get(block, timeout)
        self.got.append(x)
        return x


class Run:
    pass


def run_sim(case):
    dispatch.install()
    spec = case.get("sched") or {"kind": "dev"}
    calls = case["calls"]
    total = sum(c["n"] for c in calls)
    sched = Sched(schedules.make_chooser(spec), SUT_FILES, max_steps=20000 + 3000 * total + 2000 * len(calls) * case["workers"])
    r = Run()
    r.sched = sched
    r.outputs = []
    r.leftovers = []
    r.exc = None
    r.queues = []
    r.left = False
    slow = {int(k): v for k, v in (case.get("slow") or {}).items()}

    def pf(x):
        if type(x) is int and x % 1000 in slow:
            S().sleep(slow[x % 1000], "slow-item")
        return f(x)

    def mkq(maxsize=0):
        q = RecPipe(maxsize, name="pq%d" % len(r.queues), pipe_cap=case.get("pipe_cap") or (1 if case.get("pipe_cap") == 0 else None))
        r.queues.append(q)
        return q

    def consumer():
        try:
            if case["kind"] == "fmap":
                with pools.FunctorMap(pf, workers=case["workers"]) as fm:
                    for ci, call in enumerate(calls):
                        out = []
                        r.outputs.append(out)
                        gen_ = fm(PC.P.make_input(call, ci), call.get("chunk", 1))
                        if call.get("consume") == "exact" and call["n"] > 0:
                            # the consumer takes exactly len(data) results (zip / islice style) and never asks for one more
                            import itertools
                            out.extend(itertools.islice(gen_, call["n"]))
                            gen_.close()
                        else:
                            for x in gen_:
                                out.append(x)
                                if len(out) > 3 * call["n"] + 10:
                                    break
                        r.leftovers.append([it for it in r.queues[1].pending() if it is not None])
            else:
                for ci, call in enumerate(calls):
                    out = maps.mul_p_map(pf, PC.P.make_input(call, ci), case["workers"])
                    r.outputs.append(out)
                    r.leftovers.append([it for q in r.queues for it in q.pending()])
            r.left = True
        except core.Abort:
            raise
        except BaseException as e:  # noqa
            r.exc = e

    with dispatch.Patch() as patch:
        if case["kind"] == "fmap":
            patch.set(pools, "Queue", mkq)

            def mks():
                q = RecSimple(name="sq%d" % len(r.queues), pipe_cap=case.get("pipe_cap"))
                r.queues.append(q)
                return q
            patch.set(pools, "SimpleQueue", mks, required=False)
        else:
            patch.set(wk.FunRunner, "WORK_QUEUE", mkq(case.get("wq_bound", 16)))
            patch.set(wk.FunRunner, "RESULTS_QUEUE", mkq())
        r.outcome = sched.run(consumer)
    r.task_excs = [(t.name, t.exc) for t in sched.tasks if t.exc is not None and t is not sched.main_task]
    if r.outcome in (("budget",), ("wall-guard",)) or (isinstance(r.outcome, tuple) and r.outcome[0] == "teardown-stuck"):
        raise Inconclusive("scheduler guard %r" % (r.outcome,))
    return r


def verdicts(case, r):
    out = []
    name = "FunctorMap" if case["kind"] == "fmap" else "mul_p_map"
    if r.exc is not None:
        out.append(("%s/exception-%s" % (name, type(r.exc).__name__), "raised %r" % (r.exc,)))
    for tn, e in r.task_excs:
        out.append(("%s/task-exception-%s" % (name, type(e).__name__), "%s raised %r" % (tn, e)))
    for ci, got in enumerate(r.outputs):
        call = case["calls"][ci]
        exp = PC.P.expected_for(call, ci)
        complete = ci < len(r.leftovers)
        if complete and got != exp:
            out.append(("%s/%s" % (name, "wrong-results-for-none-or-falsy-items" if "vals" in call else PC.P.classify_diff(got, exp, ci)), "call %d (n=%d chunk=%d workers=%d) gave %r expected %r"
                        % (ci, call["n"], call.get("chunk", 1), case["workers"], PC.P.short(got), PC.P.short(exp))))
        if complete and r.leftovers[ci]:
            out.append(("%s/item-left-in-queue-after-call" % name, "after call %d: %r" % (ci, PC.P.short(r.leftovers[ci]))))
    if isinstance(r.outcome, tuple) and r.outcome[0] == "deadlock":
        info = r.outcome[1]
        main = [x for x in info if x[0] == "consumer"]
        if main:
            _, what, where = main[0]
            sig = "%s/deadlock/consumer-in-%s/%s" % (name, where[0] if where else "?", (what or "?").split(":")[0])
        else:
            sig = "%s/worker-left-running" % name
        out.append((sig, "; ".join("%s blocked on %s in %s" % (a, b, c) for a, b, c in info)))
    return out


def run_case(case, ctx):
    if case.get("real"):
        PC.judge_real(case, ctx, "FunctorMap" if case["kind"] == "fmap" else "mul_p_map", True, True)
        return
    r = run_sim(case)
    ctx.label("drawn" if case.get("_drawn", True) else "swept")
    ctx.label(case["kind"])
    res_q = r.queues[1] if len(r.queues) > 1 else None
    if res_q is not None:
        per = {}
        for it in res_q.got:
            if isinstance(it, (tuple, list)) and it[1] and type(it[1][0]) is list and len(it[1][0]) == 2 and type(it[1][0][0]) is int:
                first = it[1][0]
                per.setdefault(first[0] // 1000, []).append(it[0])
        if any(v != sorted(v) for v in per.values()):
            ctx.label("out-of-order-arrival")
            ctx.nontrivial = True
        if res_q.empty_while_inflight:
            ctx.label("empty-while-in-flight")
            ctx.nontrivial = True
    if any(c["n"] == 0 for c in case["calls"]):
        ctx.label("empty-input")
    if any(0 < c["n"] < case["workers"] for c in case["calls"]):
        ctx.label("len<workers")
        ctx.nontrivial = True
    if len(case["calls"]) >= 2:
        ctx.label("repeated-call")
        ctx.nontrivial = True
    if r.sched.recorded:
        ctx.label("schedule-deviates-from-base")
        ctx.nontrivial = True
    ctx.extra["distinct_key"] = case_hash({k: v for k, v in case.items() if k != "sched"}) + r.sched.signature()
    for sig, msg in verdicts(case, r):
        c2 = copy.deepcopy(case)
        c2["sched"] = schedules.to_dev(case.get("sched") or {}, r.sched.recorded)
        ctx.fail(sig, msg, detail={"explicit_schedule": c2["sched"]})


def minimize(case, sig):
    # reuse the pool minimiser with this module's runner
    import types
    saved = PC.P.run_pool_case
    try:
        PC.P.run_pool_case = lambda c, max_steps=None: _as_res(run_sim(c))
        return PC.minimise(_fill(case), sig, lambda c, res: verdicts(c, res.r))
    finally:
        PC.P.run_pool_case = saved


def _fill(case):
    c = copy.deepcopy(case)
    c.setdefault("rq", None)
    c.setdefault("wq", "1.0")
    c.setdefault("cdelay", [0])
    c.setdefault("begin_delay", 0)
    c.setdefault("repl_begin_delay", 0)
    c.setdefault("ready_at", None)
    return c


def _as_res(r):
    class X:
        pass
    x = X()
    x.r = r
    x.sched = r.sched
    return x


def _c(n, chunk=1, inp="list"):
    return {"mode": "o", "n": n, "chunk": chunk, "input": inp, "delays": [0], "tail": 0}


SMALL = [
    {"kind": "fmap", "workers": 2, "calls": [_c(3), _c(2, 2)], "slow": {"0": 20}, "_drawn": False},
    {"kind": "mulp", "workers": 2, "wq_bound": 2, "calls": [_c(3)], "slow": {"0": 20}, "pipe_cap": 1, "_drawn": False},
    {"kind": "fmap", "workers": 3, "calls": [_c(1), _c(0)], "_drawn": False},
    {"kind": "fmap", "workers": 1, "calls": [dict(_c(2), consume="exact"), _c(2)], "_drawn": False},
]


def sweep(configs, bound):
    def gen():
        for cfg in configs:
            for base in ("spawned-first", "continue"):
                spec0 = {"kind": "dev", "base": base, "pick": "lowest", "deliver": "late", "dev": []}
                yield dict(copy.deepcopy(cfg), sched=spec0)
                try:
                    r = run_sim(dict(copy.deepcopy(cfg), sched=spec0))
                except Inconclusive:
                    continue
                for step, n in enumerate(list(r.sched.nopts), start=1):
                    for k in range(1, n):
                        spec1 = dict(spec0, dev=[[step, k]])
                        yield dict(copy.deepcopy(cfg), sched=spec1)
                        if bound >= 2:
                            try:
                                r1 = run_sim(dict(copy.deepcopy(cfg), sched=spec1))
                            except Inconclusive:
                                continue
                            n1 = list(r1.sched.nopts)
                            for step2 in range(step + 1, len(n1) + 1, 3):
                                for k2 in range(1, n1[step2 - 1]):
                                    yield dict(copy.deepcopy(cfg), sched=dict(spec0, dev=[[step, k], [step2, k2]]))
    return gen


def enumerations(tier):
    b = 2 if tier == "thorough" else 1
    parts = [("all-schedules-<=1-deviations-3-small-configs", sweep(SMALL, 1), True)]
    if b == 2:
        parts.append(("schedules-<=2-deviations-3-small-configs-second-deviation-at-every-3rd-step", sweep(SMALL, 2), False))
    return parts


def strategies(tier):
    big = tier == "thorough"
    call = st.tuples(PC.call_strategy(max_n=12, late=True), st.sampled_from(["exhaust", "exhaust", "exact"])).map(lambda t: dict(t[0], mode="o", consume=t[1]))
    fmap = st.fixed_dictionaries({"kind": st.just("fmap"), "workers": st.sampled_from([1, 2, 2, 3]),
                                  "calls": st.lists(call, min_size=1, max_size=3),
                                  "slow": st.dictionaries(st.sampled_from(["0", "1", "2", "5"]), st.sampled_from([5, 50, 500]), max_size=2),
                                  "pipe_cap": st.sampled_from([None, None, 1, 2, 0]),
                                  "sched": schedules.strategy()})
    mulp = st.fixed_dictionaries({"kind": st.just("mulp"), "workers": st.sampled_from([1, 2, 3]), "wq_bound": st.sampled_from([1, 2, 4, 16]),
                                  "calls": st.lists(PC.call_strategy(max_n=10).map(lambda c: dict(c, mode="o", chunk=1)), min_size=1, max_size=2),
                                  "slow": st.dictionaries(st.sampled_from(["0", "1", "2"]), st.sampled_from([5, 50, 500]), max_size=2),
                                  "pipe_cap": st.sampled_from([None, None, 1, 2]),
                                  "sched": schedules.strategy()})
    n = 250000 if big else 4000
    return [("functormap", fmap, 2 * n // 3), ("mul_p_map", mulp, n // 3),
            ("none-and-falsy-items", st.one_of(fmap, mulp).map(PC.with_special_items), n // 8),
            ("real-processes", PC.real_strategy(st.one_of(fmap, mulp)), 300 if big else 14, {"shrink": False})]
