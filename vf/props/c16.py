"""C16 — ImmutIntervalMap returns the value of the one interval containing the key (E1 + E5)."""
import itertools

from hypothesis import strategies as st

from windpyutils.structures.maps import ImmutIntervalMap

from ..common import take

ID = "C16"
LEVEL = "exploration"
RULE = ("Cases: a dict of 0..6 closed intervals over a small grid of ints / dyadic floats (touching, nested, overlapping, degenerate "
        "[a,a], start>end, unsorted insertion order) and probe keys: every grid point, every midpoint between grid points, below / "
        "above everything, +-inf. Oracle: construction succeeds iff all start<=end and no two intervals share a point (brute force "
        "over pairs), else KeyError; lookup == linear scan; 'in' agrees with lookup; len; iteration == sorted items. E5: all ordered "
        "selections of <=3 distinct intervals over a 6-point grid (invalid ones included) x all probes. Non-trivial: a successfully "
        "built map with >=2 intervals probed at an interval end or inside a gap. Distinct = distinct case JSON.")
EXPLANATION = "exhaustive sub-domain: all ordered sets of <=3 distinct intervals (start,end in 0..5, also start>end) with all probes"
ASSUMPTIONS = ["interval ends are ints or exactly representable floats"]
FLOORS = {}
SHARDS = {"quick": 12, "thorough": 14}
CASE_FUEL = 200000


BIG = 2 ** 53 + 1


def run_case(case, ctx):
    ivs = [tuple(x) for x in case["ivs"]]
    if case.get("big") and all(isinstance(v, int) for iv in ivs for v in iv):
        # bounds and keys are numbers of any size: integers that a C double cannot hold exactly are compared exactly
        ivs = [(a + BIG, b + BIG) for a, b in ivs]
        case = dict(case, probes=[p + BIG for p in case.get("probes", []) if isinstance(p, int)], grid=[])
        ctx.label("bounds-beyond-2**53")
    # values are arbitrary objects: None and falsy ones among them (a lookup that returns None is a hit, not a miss)
    m = {k: [None, "v%d" % i, 0, "", False, "v%d" % i][i % 6] for i, k in enumerate(ivs)}
    uniq = list(m)
    valid = all(s <= e for s, e in uniq) and all(not (a[0] <= b[1] and b[0] <= a[1]) for a, b in itertools.combinations(uniq, 2))
    try:
        im = ImmutIntervalMap(m)
        built = True
    except KeyError:
        built = False
    except Exception as e:  # noqa
        ctx.fail("ImmutIntervalMap/init/exception-%s" % type(e).__name__, "constructor raised %r for %r" % (e, uniq))
        return
    if not ctx.need(built == valid, "ImmutIntervalMap/init/%s" % ("accepts-invalid" if built else "rejects-valid"),
                    lambda: "intervals %r: constructed=%r, but valid (start<=end, pairwise disjoint)=%r" % (uniq, built, valid)):
        return
    if not built:
        ctx.label("rejected")
        return
    ctx.label("built")
    if case.get("again", 0) % 4 == 3 and m:
        # the caller goes on using (and changing) the dict the map was built from: the map is immutable and holds what it was built from
        src = m
        m = dict(src)
        for i, k2 in enumerate(list(src)):
            if i % 2:
                del src[k2]
            else:
                src[k2] = "changed after construction"
        src[(10 ** 6, 10 ** 6 + 1)] = "added after construction"
        ctx.label("source-dict-changed-after-construction")
    ctx.need(len(im) == len(uniq), "ImmutIntervalMap/len/wrong", lambda: "len %r expected %d" % (len(im), len(uniq)))
    if case.get("again", 0) % 4 == 1 or case.get("again", 0) % 4 == 2 and len(uniq) >= 2:
        # the very first iteration of the map is abandoned after one item (a `break`), or two iterations start together
        if case.get("again", 0) % 4 == 1:
            take(im, 1)
        else:
            i1, i2 = iter(im), iter(im)
            next(i1)
            next(i2)
            next(i1)
    it = take(im, len(uniq) + 2)
    ctx.need(it == sorted(m.items()), "ImmutIntervalMap/iter/wrong", lambda: "iteration %r expected %r" % (it, sorted(m.items())))
    pts = sorted({p for iv in uniq for p in iv} | set(case.get("grid", [])))
    probes = set(pts) | {(a + b) / 2 for a, b in zip(pts, pts[1:])} | {float("inf"), float("-inf")}
    if pts:
        probes |= {pts[0] - 1, pts[-1] + 1}
    probes |= set(case.get("probes", []))
    ends = {p for iv in uniq for p in iv}
    for key in sorted(probes):
        hits = [v for (s, e), v in m.items() if s <= key <= e]
        try:
            got = [im[key]]
        except KeyError:
            got = []
        except Exception as e:  # noqa
            ctx.fail("ImmutIntervalMap/lookup/exception-%s" % type(e).__name__, "lookup of %r raised %r" % (key, e))
            return
        ctx.need(got == hits, "ImmutIntervalMap/lookup/wrong", lambda: "intervals %r key %r: got %r expected %r" % (uniq, key, got, hits))
        try:
            c = key in im
        except Exception as e:  # noqa
            ctx.fail("ImmutIntervalMap/in/exception-%s" % type(e).__name__, repr(e))
            return
        ctx.need(c == bool(hits), "ImmutIntervalMap/in/disagrees-with-lookup", lambda: "%r in map = %r, lookup hits %r" % (key, c, hits))
        if len(uniq) >= 2 and (key in ends or not hits):
            ctx.nontrivial = True
    if len(uniq) >= 2:
        ctx.label("multi-interval")
    # the map is immutable: observations do not depend on what was observed before (second, abandoned, interleaved iteration)
    exp = sorted(m.items())
    mode = case.get("again", 0) % 4
    if mode == 1:
        first = take(im, 1)
        ctx.need(first == exp[:1], "ImmutIntervalMap/iter/wrong", lambda: "abandoned iteration gave %r expected %r" % (first, exp[:1]))
    elif mode == 2:
        pairs = take(zip(im, im), len(uniq) + 2)
        ctx.need(pairs == list(zip(exp, exp)), "ImmutIntervalMap/iter/interleaved-wrong", lambda: "zip(map, map) gave %r for %r" % (pairs, exp))
    it = take(im, len(uniq) + 2)
    ctx.need(it == exp, "ImmutIntervalMap/iter/wrong-after-other-observations",
             lambda: "iteration after lookups and an earlier iteration gave %r expected %r" % (it, exp))
    ctx.need(len(im) == len(uniq), "ImmutIntervalMap/len/wrong", lambda: "len %r expected %d" % (len(im), len(uniq)))


def enum_small():
    pts = range(6)
    ivs = [(s, e) for s in pts for e in pts]  # includes start > end
    for n in range(0, 4):
        for sel in itertools.permutations(ivs, n) if n <= 2 else itertools.combinations(ivs, n):
            yield {"ivs": [list(x) for x in sel], "grid": list(pts)}
    # insertion orders for 3 valid disjoint intervals
    good = [(s, e) for s in pts for e in pts if s <= e]
    for sel in itertools.combinations(good, 3):
        if all(not (a[0] <= b[1] and b[0] <= a[1]) for a, b in itertools.combinations(sel, 2)):
            for perm in itertools.permutations(sel):
                yield {"ivs": [list(x) for x in perm], "grid": list(pts)}


def enum_four():
    """thorough only: all sets of 4 intervals (invalid ones included) over a 5-point grid, in two insertion orders each, and
    every insertion order of every valid 4-interval map over a 9-point grid"""
    pts = range(5)
    ivs = [(s, e) for s in pts for e in pts]
    for sel in itertools.combinations(ivs, 4):
        yield {"ivs": [list(x) for x in sel], "grid": list(pts)}
        yield {"ivs": [list(x) for x in reversed(sel)], "grid": list(pts)}
    pts9 = range(9)
    good = [(s, e) for s in pts9 for e in pts9 if s <= e and e - s <= 2]
    for sel in itertools.combinations(good, 4):
        if all(not (a[0] <= b[1] and b[0] <= a[1]) for a, b in itertools.combinations(sel, 2)):
            for perm in itertools.permutations(sel):
                yield {"ivs": [list(x) for x in perm], "grid": list(pts9)}


def enumerations(tier):
    parts = [("<=3-intervals-6point-grid-all-probes", enum_small, True)]
    if tier == "thorough":
        parts.append(("4-intervals-5point-grid-and-all-orders-of-valid-4-interval-maps-9point-grid", enum_four, True))
    return parts


def strategies(tier):
    big = tier == "thorough"
    ints = st.tuples(st.integers(0, 14), st.integers(0, 14))
    dy = st.tuples(st.integers(0, 28), st.integers(0, 28)).map(lambda t: (t[0] / 2, t[1] / 2))
    mostly_valid = lambda base: base.map(lambda t: [min(t), max(t)])
    raw = lambda base: base.map(list)
    # disjoint by construction: sorted distinct points paired up, then shuffled
    disjoint = st.lists(st.integers(0, 40), min_size=2, max_size=12, unique=True).flatmap(
        lambda ps: st.permutations([[a / 2, b / 2] for a, b in zip(sorted(ps)[0::2], sorted(ps)[1::2])]))
    case = st.one_of(
        st.fixed_dictionaries({"ivs": st.lists(mostly_valid(ints), max_size=6), "probes": st.lists(st.integers(-1, 15), max_size=3), "again": st.integers(0, 3), "big": st.sampled_from([False, False, True])}),
        st.fixed_dictionaries({"ivs": st.lists(mostly_valid(dy), max_size=6), "probes": st.lists(st.integers(-2, 58).map(lambda i: i / 4), max_size=3), "again": st.integers(0, 3)}),
        st.fixed_dictionaries({"ivs": st.lists(raw(ints), max_size=4), "probes": st.just([])}),
        st.fixed_dictionaries({"ivs": disjoint, "probes": st.lists(st.integers(-2, 82).map(lambda i: i / 4), max_size=4), "again": st.integers(0, 3)}),
        st.fixed_dictionaries({"ivs": disjoint, "probes": st.lists(st.integers(-2, 82).map(lambda i: i / 4), max_size=4), "again": st.integers(0, 3)}),
    )
    return [("drawn-maps", case, 1000000 if big else 10000)]
