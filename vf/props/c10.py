"""C10 — SpanSet operators follow their membership-based definitions for every relation (E1 + E5)."""
import itertools

from hypothesis import strategies as st

from windpyutils.structures import span_set as SS

ID = "C10"
LEVEL = "exploration"
RULE = ("Cases: two span lists (0..5 spans, start<=end, endpoints from a small integer grid or quarter-step floats, or 0..16 spans of length 0..2 over a 41-point grid; overlapping, "
        "nested, repeated, empty), each with one of the four relations (all 16 combinations), both constructor forms. Oracle: brute "
        "force written from the statement (member(x,S) = exists stored y: rel_S(x,y); construction keeps x iff not member(x, "
        "built so far); A op B = the spans of A and B satisfying the membership formula, each once; comparisons = their quantified "
        "definitions). E5: all pairs of lists with <=2 spans over a 4-point grid x 16 relation pairs. Non-trivial: the operands "
        "use different relations, or an asymmetric relation (PartOf/Includes) with a properly nested pair of spans present. "
        "Distinct = distinct case JSON.")
EXPLANATION = "exhaustive sub-domain: all pairs of span lists with <=2 spans over the grid {0,1,2,3}, all 16 relation pairs"
ASSUMPTIONS = ["span endpoints are ints/floats with start<=end"]
FLOORS = {"mixed-relations": (0.373, None)}
SHARDS = {"quick": 12, "thorough": 14}
CASE_FUEL = 500000

REL_NAMES = ["Exact", "PartOf", "Includes", "Overlaps"]


def rel_obj(i):
    return [SS.SpanSetExactEqRelation, SS.SpanSetPartOfEqRelation, SS.SpanSetIncludesEqRelation, SS.SpanSetOverlapsEqRelation][i]()


def rel(i, x, y):
    (xs, xe), (ys, ye) = x, y
    if i == 0:
        return xs == ys and xe == ye
    if i == 1:
        return ys <= xs and xe <= ye
    if i == 2:
        return xs <= ys and ye <= xe
    return xe >= ys and ye >= xs


def build(spans, r):
    kept = []
    for x in spans:
        if not any(rel(r, x, y) for y in kept):
            kept.append(x)
    return kept


def run_case(case, ctx):
    a = [tuple(s) for s in case["a"]]
    b = [tuple(s) for s in case["b"]]
    ra, rb = case["ra"], case["rb"]

    def g(what, fn):
        try:
            return fn()
        except Exception as e:  # noqa
            ctx.fail("SpanSet/%s/exception-%s" % (what, type(e).__name__), "%s raised %r" % (what, e))
            raise _Stop()

    try:
        if case.get("two_seq"):
            A = g("init", lambda: SS.SpanSet([s for s, _ in a], [e for _, e in a], eq_relation=rel_obj(ra)))
        else:
            # force_no_dup_check "is not obeyed when starts contains Iterable of spans" (constructor documentation)
            A = g("init", lambda: SS.SpanSet(list(a), eq_relation=rel_obj(ra), force_no_dup_check=bool(case.get("force"))))
        B = g("init", lambda: SS.SpanSet(iter(b), eq_relation=rel_obj(rb)))
        ka, kb = build(a, ra), build(b, rb)
        A0 = None
        if case.get("via_copy"):
            # the relation variant is made the way the repository's own tests make theirs: an exact set is built and queried,
            # copied, and the copy gets another relation (its stored spans are those the exact construction kept)
            A0 = g("init", lambda: SS.SpanSet(list(a), eq_relation=rel_obj(0)))
            for x in sorted(set(a) | set(b)):
                g("in", lambda: x in A0)
            A = g("copy", lambda: A0.copy())
            A.eq_relation = rel_obj(ra)
            ka = build(a, 0)
            ctx.label("relation-variant-made-from-a-queried-copy")
        la, lb = g("iter", lambda: list(A)), g("iter", lambda: list(B))
        if max(len(la), len(lb)) > 8:
            ctx.label("set-of-more-than-8-spans")
        if max(len(la), len(lb)) > 8 and (ra in (1, 3) and len(la) > 8 or rb in (1, 3) and len(lb) > 8):
            ctx.label("interval-relation-set-of-more-than-8-spans")
        ctx.need(la == ka and lb == kb, "SpanSet/init/construction-differs",
                 lambda: "relation %s: built %r from %r, definition gives %r" % (REL_NAMES[ra], la, a, ka))
        ctx.need(len(A) == len(ka) and len(B) == len(kb), "SpanSet/len/wrong", "len differs")

        def in_a(x):
            return any(rel(ra, x, y) for y in ka)

        def in_b(x):
            return any(rel(rb, x, y) for y in kb)

        probes = set(a) | set(b) | {tuple(p) for p in case.get("probes", [])}
        for x in sorted(probes):
            ga, gb = g("in", lambda: x in A), g("in", lambda: x in B)
            ctx.need(ga == in_a(x), "SpanSet/in/wrong", lambda: "%r in %s-set %r = %r" % (x, REL_NAMES[ra], ka, ga))
            ctx.need(gb == in_b(x), "SpanSet/in/wrong", lambda: "%r in %s-set %r = %r" % (x, REL_NAMES[rb], kb, gb))
        univ = ka + kb
        formulas = [("and", lambda x: in_a(x) and in_b(x), lambda: A & B), ("or", lambda x: in_a(x) or in_b(x), lambda: A | B),
                    ("sub", lambda x: in_a(x) and not in_b(x), lambda: A - B), ("xor", lambda x: in_a(x) != in_b(x), lambda: A ^ B)]
        for name, f, op in formulas:
            res = g(name, op)
            got = g(name, lambda: list(res))
            exp = {x for x in univ if f(x)}
            ctx.need(len(got) == len(set(got)), "SpanSet/%s/duplicate-in-result" % name, lambda: "%s gives %r" % (name, got))
            ctx.need(set(got) == exp, "SpanSet/%s/wrong-members" % name,
                     lambda: "A(%s)=%r %s B(%s)=%r gives %r, definition gives %r" % (REL_NAMES[ra], ka, name, REL_NAMES[rb], kb, got, sorted(exp)))
            # the result is a plain (exact-match) set
            for x in list(univ) + sorted(probes - set(univ)):
                r = g(name, lambda: x in res)
                ctx.need(r == (x in exp), "SpanSet/%s/result-not-exact-membership" % name, lambda: "%r in result %r = %r" % (x, got, r))
        le = all(in_b(x) for x in ka)
        ge = all(in_a(x) for x in kb)
        eq = le and ge
        checks = [("le", lambda: A <= B, le), ("ge", lambda: A >= B, ge), ("eq", lambda: A == B, eq), ("ne", lambda: A != B, not eq),
                  ("lt", lambda: A < B, le and not eq), ("gt", lambda: A > B, ge and not eq),
                  ("issubset", lambda: A.issubset(B), le), ("issuperset", lambda: A.issuperset(B), ge),
                  ("isdisjoint", lambda: A.isdisjoint(B), all(not in_a(x) for x in kb)),
                  ("isdisjoint-iterable", lambda: A.isdisjoint(list(b)), all(not in_a(x) for x in b))]
        for name, op, exp in checks:
            got = g(name, op)
            ctx.need(bool(got) == exp, "SpanSet/%s/wrong" % name,
                     lambda: "A(%s)=%r %s B(%s)=%r is %r, definition gives %r" % (REL_NAMES[ra], ka, name, REL_NAMES[rb], kb, got, exp))
        if A0 is not None:
            k0 = build(a, 0)
            for x in sorted(set(a) | set(b)):
                r0 = g("in", lambda: x in A0)
                ctx.need(r0 == any(rel(0, x, y) for y in k0), "SpanSet/in/original-changed-by-its-copy",
                         lambda: "%r in the exact set %r = %r after its copy got relation %s" % (x, k0, r0, REL_NAMES[ra]))
        # operators and comparisons are pure: both operands still hold exactly their spans (second iteration, len, membership)
        la2, lb2 = g("iter", lambda: list(A)), g("iter", lambda: list(B))
        ctx.need(la2 == ka and lb2 == kb and len(A) == len(ka) and len(B) == len(kb), "SpanSet/operand-changed-by-an-operator",
                 lambda: "after the operators A=%r (was %r), B=%r (was %r)" % (la2, ka, lb2, kb))
    except _Stop:
        return
    if ra != rb:
        ctx.label("mixed-relations")
        ctx.nontrivial = True
    spans = a + b
    nested = any(x != y and y[0] <= x[0] and x[1] <= y[1] for x in spans for y in spans)
    if nested and (ra in (1, 2) or rb in (1, 2)):
        ctx.label("asymmetric-nested")
        ctx.nontrivial = True
    if not a or not b:
        ctx.label("empty-operand")


class _Stop(Exception):
    pass


def enum_pairs(points):
    def gen():
        spans = [(s, e) for s in range(points) for e in range(s, points)]
        lists = [[]] + [[x] for x in spans] + [[x, y] for x in spans for y in spans]
        for a in lists:
            for b in lists:
                for ra in range(4):
                    for rb in range(4):
                        yield {"a": [list(x) for x in a], "b": [list(x) for x in b], "ra": ra, "rb": rb,
                               "two_seq": (ra + rb) % 2 == 1, "probes": [[0, points - 1], [1, 1]]}
    return gen


def enum_triples():
    """thorough only: all pairs of span lists with <=3 spans over a 3-point grid x 16 relation pairs"""
    spans = [(s, e) for s in range(3) for e in range(s, 3)]
    lists = [[]] + [[x] for x in spans] + [[x, y] for x in spans for y in spans] + [[x, y, z] for x in spans for y in spans for z in spans]
    for a in lists:
        for b in lists:
            for ra in range(4):
                for rb in range(4):
                    yield {"a": [list(x) for x in a], "b": [list(x) for x in b], "ra": ra, "rb": rb, "two_seq": (ra + rb) % 2 == 0, "probes": [[0, 2]]}


def enumerations(tier):
    parts = [("pairs-<=2spans-4point-grid-x16relations", enum_pairs(4), True)]
    if tier == "thorough":
        parts.append(("pairs-<=3spans-3point-grid-x16relations", enum_triples, True))
    return parts


def strategies(tier):
    big = tier == "thorough"

    def span(grid):
        return st.tuples(grid, grid).map(lambda t: [min(t), max(t)])
    ints = span(st.integers(0, 4))
    floats = span(st.integers(0, 16).map(lambda i: i / 4))
    # many short spans over a long grid: sets that keep more than a handful of spans under every relation (a size-dependent
    # fast path in membership was seeded in round 16; nothing in the code limits the number of spans)
    short = st.tuples(st.integers(0, 40), st.integers(0, 2)).map(lambda t: [t[0], t[0] + t[1]])
    case = st.one_of(*[
        st.fixed_dictionaries({"a": st.lists(sp, max_size=n), "b": st.lists(sp, max_size=n), "ra": st.integers(0, 3),
                               "rb": st.integers(0, 3), "two_seq": st.booleans(), "via_copy": st.sampled_from([False, False, True]), "force": st.sampled_from([False, False, True]), "probes": st.lists(sp, max_size=3)})
        for sp, n in ((ints, 5), (floats, 5), (short, 16))])
    return [("drawn-pairs", case, 1000000 if big else 10000)]
