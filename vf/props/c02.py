"""C02 — imap and imap_unordered always terminate on finite input (E2 scheduler: deadlock-freedom of the controlled system)."""
from hypothesis import strategies as st

from . import poolcases as PC
from ..sched import poolsim as P
from ..common import case_hash

ID = "C02"
LEVEL = "exploration"
RULE = ("Cases: as C01 (single call per pool), with extra weight on lazily produced inputs whose items / StopIteration arrive after "
        "every result has been consumed (delays up to 3000 scheduler steps), on bounded result queues with >=3 chunks (flow-control "
        "pause/resume path) and on workers > chunks; functors return normally. Oracle: under the harness-owned scheduler 'hang' is the "
        "decidable predicate 'no task is runnable and the consumer has not left the pool context' (no clock); the blocked-on primitive "
        "and source location of every task is reported. E5: every schedule with <=1 (quick) / <=2 (thorough) deviations for three small "
        "configurations, plus every schedule with <=2 deviations placed right before accesses to attributes of the pool object (preemption inside a source line) for two small configurations. Non-trivial: the input's StopIteration was delayed (late-stopiteration), or flow control paused the feeder, or "
        "the input was empty, or the schedule deviates from the base policy. Distinct = distinct (configuration, interleaving signature).")
EXPLANATION = "exhaustive sub-domain: all schedules with <=b deviations from two base policies for the listed small configurations"
ASSUMPTIONS = ["termination is decided for the controlled system (line granularity + primitive operations); liveness = deadlock-freedom because the code has no retry loops",
               "stand-ins have the semantics of the real primitives (DESIGN.md §3 E2 table)"]
FLOORS = {"late-stopiteration": (0.1, "drawn"), "flow-control-paused": (0.02, "drawn"), "empty-input": (0.02, "drawn")}
SHARDS = {"quick": 14, "thorough": 14}
CASE_FUEL = None
HYP_SHRINK = False
WALL_GUARD = {"quick": 1500, "thorough": 8 * 3600}


def shard_setup(shard, nshards):
    PC.pin_shard(shard, nshards)


def verdicts(case, res):
    return P.liveness_verdicts(case, res)


def run_case(case, ctx):
    if case.get("real"):
        PC.judge_real(case, ctx, "FactoryFunctorPool" if case["pool"] == "factory" else "FunctorPool", False, True)
        return
    res = P.run_pool_case(case)
    labs = P.labels_for(case, res)
    ctx.label(*labs)
    if case.get("_drawn", True):
        ctx.label("drawn")
    ctx.extra["distinct_key"] = case_hash({k: v for k, v in case.items() if k != "sched"}) + res.sched.signature()
    if labs & {"late-stopiteration", "flow-control-paused", "empty-input", "schedule-deviates-from-base"}:
        ctx.nontrivial = True
    for sig, msg in verdicts(case, res):
        ctx.fail(sig, msg, detail={"explicit_schedule": PC.explicit(case, res)["sched"]})


def minimize(case, sig):
    return PC.minimise(case, sig, verdicts)


SMALL = [
    {"pool": "functor", "workers": 1, "quota": None, "wq": "1.0", "rq": None, "calls": [{"mode": "o", "n": 1, "chunk": 1, "input": "gen", "delays": [0], "tail": 40}], "_drawn": False},
    {"pool": "functor", "workers": 2, "quota": None, "wq": "1.0", "rq": 1, "calls": [{"mode": "o", "n": 3, "chunk": 1, "input": "list"}], "slow": {"0": 30}, "_drawn": False},
    {"pool": "factory", "workers": 2, "quota": None, "wq": 1, "rq": None, "calls": [{"mode": "u", "n": 0, "chunk": 1, "input": "gen", "delays": [0], "tail": 20}], "_drawn": False},
]


SHARED = [
    {"pool": "functor", "workers": 1, "quota": None, "wq": "1.0", "rq": None, "calls": [{"mode": "o", "n": 1, "chunk": 1, "input": "gen", "delays": [0], "tail": 60}], "_drawn": False},
    {"pool": "functor", "workers": 2, "quota": None, "wq": "1.0", "rq": 1, "calls": [{"mode": "o", "n": 3, "chunk": 1, "input": "gen", "delays": [0, 0, 150], "tail": 0}], "slow": {"0": 40}, "_drawn": False},
]


def enumerations(tier):
    b = 2 if tier == "thorough" else 1
    return [("all-schedules-<=2-deviations-at-shared-attribute-accesses-2-small-configs", PC.sweep_shared(SHARED), True),("all-schedules-<=%d-deviations-3-small-configs" % b, PC.sweep(SMALL, b), True)]


def strategies(tier):
    big = tier == "thorough"
    # "every call" includes the later calls on one pool, also after workers have retired (the detailed histories are C03's)
    general = PC.pool_strategy(max_calls=2, quotas=(None, None, None, 1, 2))
    late = PC.pool_strategy(max_calls=1).map(force_late)
    flow = PC.pool_strategy(max_calls=1).map(force_flow)
    n = 200000 if big else 6000
    return [("drawn-general", general, n // 3), ("drawn-late-input", late, n // 3), ("drawn-flow-control", flow, n // 3),
            ("real-processes-late-input", PC.real_strategy(late), 300 if big else 14, {"shrink": False})]


def force_late(case):
    c = case["calls"][0]
    c["input"] = "gen"
    if not c.get("tail"):
        c["tail"] = 600
    return case


def force_flow(case):
    c = case["calls"][0]
    case["rq"] = case["rq"] if case["rq"] in (1, 2) else 1
    c["chunk"] = 1
    c["n"] = max(c["n"], 4)
    case["workers"] = max(2, case["workers"])
    if not case.get("slow"):
        case["slow"] = {"0": 50}
    return case
