"""C18 — one opened line/map file can be read from many forked processes at once (E3: forked readers, controlled turns)."""
import os
import tempfile

from hypothesis import strategies as st

import windpyutils.files as wf

from .. import xproc
from ..common import Inconclusive

ID = "C18"
LEVEL = "exploration"
RULE = ("Cases: class in {RandomLineAccessFile, MemoryMappedRandomLineAccessFile, MapAccessFile with dict mapping, MapAccessFile with "
        "index-file mapping}; file of distinct multi-byte lines in size class small / 40 KB / 200 KB; the object is opened in the parent "
        "(which optionally reads before forking); 1..4 forked children with programmes of 1..8 reads each (random index reads, or keys in the order of the lines - short runs and runs of 130..320 keys, longer than a read-ahead buffer; for the sequence classes also fresh iterations over the first n lines and slices), the parent optionally "
        "reading concurrently in a gated thread, optionally a grandchild forked by a child after its first read; a generated schedule "
        "grants single seek/readline steps to the processes. Oracle: every value read in every process equals the reference line (for "
        "MapAccessFile the line with its terminator), the parent's read after all children finished is correct, (whether a child's descriptor shares the parent's open file description is measured by a dup + lseek probe and reported as a label only). "
        "Non-trivial: >=2 processes whose low-level operations actually alternate (a seek of one falls between the seek and the "
        "readline of another) on a file larger than two I/O buffers. Distinct = distinct case JSON.")
EXPLANATION = ""
ASSUMPTIONS = ["schedule control at the granularity of Python-level seek/readline calls on the handle (where the per-process-handle mechanism operates)",
               "files without carriage returns (MapAccessFile reads in universal-newline mode; not this property's subject)"]
FLOORS = {"alternating-on-large-file": (0.2, None)}
SHARDS = {"quick": 12, "thorough": 14}
CASE_FUEL = None
WALL_GUARD = {"quick": 1500, "thorough": 8 * 3600}

_FILES = {}
_DIR = None


def shard_setup(shard, nshards):
    global _DIR
    _DIR = tempfile.mkdtemp(prefix="c18-", dir=os.environ.get("VF_SCRATCH") or None)


def shard_teardown():
    import shutil
    if _DIR:
        shutil.rmtree(_DIR, ignore_errors=True)


def get_file(size):
    global _DIR
    if _DIR is None:
        shard_setup(0, 1)
    if size not in _FILES:
        n = {"small": 12, "40k": 550, "200k": 2800}[size]
        lines = ["line %05d %s" % (i, "é" * (i % 7) + "x" * (5 + (i * 7) % 90) + "€" * (i % 3)) for i in range(n)]
        p = os.path.join(_DIR, "f-%s.txt" % size)
        with open(p, "w", encoding="utf-8", newline="") as f:
            f.write("\n".join(lines) + "\n")
        offs = []
        o = 0
        for l in lines:
            offs.append(o)
            o += len(l.encode("utf-8")) + 1
        idx = os.path.join(_DIR, "f-%s.index" % size)
        with open(idx, "w", encoding="utf-8", newline="") as f:
            f.write("key\tfile_line_offset\n")
            for i, off in enumerate(offs):
                f.write("k%d\t%d\n" % (i, off))
        _FILES[size] = (p, lines, offs, idx, o)
    return _FILES[size]


class Pair:
    """two objects over the same file, both opened before the fork; `a` is the one the programmes read, `b` is read once first"""

    def __init__(self, a, b):
        self.a, self.b = a, b

    def open(self):
        self.a.open()
        self.b.open()
        return self

    def close(self):
        self.a.close()
        self.b.close()

    def __getitem__(self, k):
        return self.a[k]

    def __iter__(self):
        return iter(self.a)

    def __getattr__(self, name):
        return getattr(self.a, name)


def fd_probe(obj):
    """in a child, right after its first read: is obj.file the same open file description as the parent's (dup'ed before fork)?"""
    dupfd = getattr(obj, "_vf_dup", None)
    f = getattr(obj, "file", None)
    if dupfd is None or f is None or not hasattr(f, "fileno"):
        return "n/a"
    own = f.fileno()
    os.lseek(dupfd, 1, os.SEEK_SET)
    p1 = os.lseek(own, 0, os.SEEK_CUR)
    os.lseek(dupfd, 3, os.SEEK_SET)
    p2 = os.lseek(own, 0, os.SEEK_CUR)
    return "shared" if (p1, p2) == (1, 3) else "separate"


def run_case(case, ctx):
    if not case.get("relpath"):
        return _run_case(case, ctx, False)
    # the file is given by a relative path (the working directory is the scratch directory for the whole case, children included)
    get_file(case["size"])
    old = os.getcwd()
    os.chdir(_DIR)
    try:
        ctx.label("relative-path")
        return _run_case(case, ctx, True)
    finally:
        os.chdir(old)


def _run_case(case, ctx, rel):
    path, lines, offs, idx, size = get_file(case["size"])
    if rel:
        path, idx = os.path.basename(path), os.path.basename(idx)
    kind = case["cls"]
    n = len(lines)
    if kind == "buffered":
        mk = lambda: wf.RandomLineAccessFile(path)
        key = lambda i: i
        exp = lambda i: lines[i]
    elif kind == "mmap":
        mk = lambda: wf.MemoryMappedRandomLineAccessFile(path)
        key = lambda i: i
        exp = lambda i: lines[i]
    elif kind == "map-dict":
        mapping = {"k%d" % i: offs[i] for i in range(n)}
        mk = lambda: wf.MapAccessFile(path, mapping)
        key = lambda i: "k%d" % i
        exp = lambda i: lines[i] + "\n"
    else:
        mk = lambda: wf.MapAccessFile(path, idx)
        key = lambda i: "k%d" % i
        exp = lambda i: lines[i] + "\n"
    seq = kind in ("buffered", "mmap")   # sequence classes also offer iteration and slices

    def res_i(v):
        """programme entry -> access: an int is an index; a negative code selects an iteration / slice (sequence classes);
        the string "open" is a call of open() on the (already open) object"""
        if v == "open":
            return ["open"]
        if v == "nofd":
            return ["nofd"]
        if isinstance(v, int) and v < 0 and seq:
            m = -v
            if m % 2:
                return ["iter", 1 + (m // 2) % 6]
            a = (m // 2) % n
            return ["slice", a, min(n, a + 1 + (m // 7) % 4)]
        return abs(v) % n

    def key_of(a):
        return a if isinstance(a, list) else key(a)

    def exp_of(a):
        if isinstance(a, list) and a[0] == "open":
            return "opened"
        if isinstance(a, list) and a[0] == "nofd":
            return "nofd"
        if isinstance(a, list) and a[0] == "other":
            return other_exp(int(str(a[1]).lstrip("k")))
        if isinstance(a, list):
            return lines[:a[1]] if a[0] == "iter" else lines[a[1]:a[2]]
        return exp(a)

    def expand(pr):
        out_ = []
        for v in pr:
            if isinstance(v, list) and v and v[0] == "range":      # ["range", start, count]: keys in the order of the lines
                out_.extend(range(v[1], v[1] + v[2]))
            else:
                out_.append(v)
        return out_

    second = bool(case.get("second"))
    if second:
        # a second object (of the other family of classes) over the same file is open in the parent as well, and every forked
        # process reads through it once before it uses the first one: each opened file must keep working on its own
        mk_a = mk
        if seq:
            mapping2 = {"k%d" % i: offs[i] for i in range(n)}
            mk_b = lambda: wf.MapAccessFile(path, mapping2)
            other_key, other_exp = (lambda i: "k%d" % i), (lambda i: lines[i] + "\n")
        else:
            mk_b = lambda: wf.RandomLineAccessFile(path)
            other_key, other_exp = (lambda i: i), (lambda i: lines[i])
        mk = lambda: Pair(mk_a(), mk_b())
        ctx.label("two-objects-open-before-the-fork")
    progs = [[res_i(v) for v in expand(pr)] for pr in case["children"]]
    if second:
        progs = [[["other", other_key((7 * (ci + 1)) % n)]] + pr for ci, pr in enumerate(progs)]
    if case.get("nofd"):
        # the children have used up their file descriptors before they touch the file (a worker that holds many files open)
        progs = [[["nofd"]] + pr for pr in progs]
        ctx.label("children-out-of-file-descriptors")
    parent_prog = [res_i(v) for v in expand(case["parent_prog"])] if case.get("parent_prog") else None
    if any(len(pr) > 100 for pr in progs):
        ctx.label("long-sequential-programme")
    grand = None
    if case.get("grand") and progs:
        gi = case["grand"][0] % len(progs)
        grand = (gi, [key_of(res_i(v)) for v in expand(case["grand"][1])])
    if any(isinstance(a, list) for pr in progs + ([parent_prog] if parent_prog else []) for a in pr):
        ctx.label("iteration-or-slice-in-forked-process")
    use_probe = kind in ("buffered", "map-dict", "map-index") and parent_prog is None and grand is None and not second

    def make():
        o = mk()
        return o

    def make_with_dup():
        o = mk()
        orig_open = o.open

        def open_and_dup():
            r = orig_open()
            if getattr(o, "_vf_dup", None) is None and o.file is not None and hasattr(o.file, "fileno"):
                o._vf_dup = os.dup(o.file.fileno())
            return r
        o.open = open_and_dup
        return o

    try:
        res, after, trace = xproc.run(make_with_dup if use_probe else make, [[key_of(i) for i in pr] for pr in progs], case["schedule"],
                                      [key_of(i) for i in parent_prog] if parent_prog is not None else None,
                                      parent_first_key=key(0) if case.get("parent_first") else None, grand=grand,
                                      probe=fd_probe if use_probe else None)
    except Inconclusive:
        raise
    name = {"buffered": "RandomLineAccessFile", "mmap": "MemoryMappedRandomLineAccessFile"}.get(kind, "MapAccessFile")
    expected = [[exp_of(i) for i in pr] for pr in progs]
    if grand is not None:
        expected.append([exp_of(res_i(v)) for v in expand(case["grand"][1])])
    if parent_prog is not None:
        expected.append([exp_of(i) for i in parent_prog])
    who = ["child %d" % i for i in range(len(progs))] + (["grandchild"] if grand is not None else []) + (["parent"] if parent_prog is not None else [])
    for w, got, e in zip(who, res, expected):
        probe = [x for x in got if isinstance(x, dict)]
        vals = [x for x in got if not isinstance(x, dict)]
        if any(isinstance(x, str) and x.startswith("EXC:") and ("Too many open files" in x or "Errno 24" in x) for x in vals):
            raise Inconclusive("a participant without free file descriptors got EMFILE: a resource fault the statement does not cover")
        if vals != e:
            bad = next((j for j, (a, b) in enumerate(zip(vals, e)) if a != b), None)
            ctx.fail("%s/forked-read-wrong-line" % name,
                     "%s (file %s, %d processes): read no. %s returned %r, expected %r" % (w, case["size"], len(who), bad,
                                                                                         short(vals[bad]) if bad is not None else vals, short(e[bad]) if bad is not None else e))
        for pr in probe:
            # informative only: an implementation that shares the description but reads position-independently would be fine,
            # so sharing alone is not a verdict; the value oracle decides
            ctx.label("fd-" + str(pr["probe"]))
    if case.get("parent_first") and after != exp(0):
        ctx.fail("%s/parent-read-after-children-wrong" % name, "parent read %r expected %r" % (short(after), short(exp(0))))
    # classification
    alternating = False
    pending = {}
    for p, op in trace:
        if op == "S":
            for q, st_ in pending.items():
                if q != p and st_ == "S":
                    alternating = True
            pending[p] = "S"
        else:
            pending[p] = "R"
    ctx.label(kind)
    if alternating:
        ctx.label("alternating")
        if size > 2 * 8192:
            ctx.label("alternating-on-large-file")
            ctx.nontrivial = True
    if parent_prog is not None:
        ctx.label("parent-participates")
    if grand is not None:
        ctx.label("grandchild")
    if use_probe:
        ctx.label("fd-probe")


def short(x):
    if isinstance(x, str) and len(x) > 50:
        return x[:50] + "..."
    return x


def strategies(tier):
    big = tier == "thorough"
    rnd_prog = st.lists(st.one_of(st.integers(0, 3000), st.integers(0, 3000), st.integers(-3000, -1)), min_size=1, max_size=6)
    # keys requested in the order of the lines (right behind what the parent read before forking, or from anywhere)
    seq_prog = st.tuples(st.sampled_from([1, 1, 0, 2, 40, 500]), st.integers(2, 8)).map(lambda t: list(range(t[0], t[0] + t[1])))
    # long runs of consecutive keys: longer than what one read-ahead buffer holds, so that buffer refills happen in mid-run
    long_prog = st.tuples(st.sampled_from([1, 1, 0, 25]), st.sampled_from([130, 220, 320])).map(lambda t: [["range", t[0], t[1]]])
    # a process may call open() (an empty operation on an open object) before or between its reads, e.g. in a worker initialiser
    open_first = st.one_of(rnd_prog, seq_prog).map(lambda pr: ["open"] + pr)
    prog = st.one_of(rnd_prog, rnd_prog, rnd_prog, seq_prog, seq_prog, long_prog, open_first)
    case = st.fixed_dictionaries({
        "cls": st.sampled_from(["buffered", "buffered", "mmap", "map-dict", "map-index"]),
        "size": st.sampled_from(["small", "40k", "200k", "200k"]), "relpath": st.sampled_from([False, False, True]), "nofd": st.sampled_from([False, False, False, True]), "second": st.sampled_from([False, False, False, True]),
        "parent_first": st.booleans(),
        "children": st.lists(prog, min_size=1, max_size=4),
        "parent_prog": st.one_of(st.none(), prog),
        "grand": st.one_of(st.none(), st.none(), st.tuples(st.integers(0, 3), prog).map(list)),
        "schedule": st.lists(st.integers(0, 5), max_size=40),
    })
    return [("forked-readers", case, 30000 if big else 2000)]


def enumerations(tier):
    return []
