"""C20 — TmpPool and FilePool leave nothing behind (E1 with fault-position enumeration + forked children)."""
import multiprocessing
import os

from hypothesis import strategies as st

from windpyutils import files as F

from . import filegen as FG
from ..common import codes, Violation

ID = "C20"
LEVEL = "exploration"
RULE = ("Cases: 'tmp': TmpPool(fresh scratch dir, multi_proc) (single-process pools also with files created before the context is entered and with the context entered again from the body) with a body of create / remove(j-th live path) / external os.remove then "
        "pool.remove / external os.remove without telling the pool / flush / len / index operations; for every generated body the with-block is executed once without fault and once "
        "for EVERY position p at which the body raises (all fault positions enumerated); multi-process pools additionally fork 1..3 "
        "children (multiprocessing fork context) that each create 1..3 files inside the context; 'conc': the parent and 1..2 forked children remove (disjoint shares of) and create files of one multi_proc pool at the same time, with single os.remove/create turns granted by a generated schedule. 'files': FilePool over 0..5 distinct "
        "paths in mode r/rb/r+/w/wb/a/w+ with reads/writes through the handles and the same fault enumeration, and pools in which one path cannot be opened (entering must raise and leave no descriptor of the earlier paths open). Oracle: returned paths "
        "distinct and existing; after every step list(pool) == created-and-not-removed == files present in the scratch directory; after "
        "flush and after leaving the context (normally or by the exception, which must propagate unchanged) the directory is empty, "
        "children's files included; FilePool: inside the context keys == paths and every value is an open handle of that path and mode, "
        "afterwards every handle is closed. Non-trivial: an exception raised inside the body after >=1 create, or flush followed by "
        "create, or a child-created file. Distinct = distinct case JSON.")
EXPLANATION = "each evaluation executes its body 1 + (number of fault positions) times; label 'fault-runs' counts those executions"
ASSUMPTIONS = ["files are created only through the pool; remove() is called only with paths the pool returned"]
FLOORS = {"exception-after-create": (0.3, "tmp"), "multi-proc": (0.05, "tmp")}
SHARDS = {"quick": 12, "thorough": 14}
CASE_FUEL = None  # file-system and manager I/O, no pure-Python loops in the code under test


class Boom(Exception):
    pass


TMP_OPS = ["create", "create", "remove", "ext_remove", "flush", "len", "index", "create", "remove", "ext_delete_only", "create", "reenter", "ext_to_dir"]


def dec_tmp(c):
    return [TMP_OPS[c % len(TMP_OPS)], (c // len(TMP_OPS)) % 7]


def listdir(d):
    return sorted(os.path.join(d, x) for x in os.listdir(d))


def child_main(pool, n):
    for _ in range(n):
        pool.create()


def run_tmp_once(case, ctx, fault_at, sc, run_no):
    d = sc.path("pool-%d" % run_no)
    os.mkdir(d)
    multi = case["multi"]
    body = case["body"]
    use_with = case.get("use_with", True)
    pool = F.TmpPool(d, multi_proc=multi)
    first_manager = pool._manager if multi and hasattr(pool, "_manager") else None
    live = []
    gone = set()        # live paths deleted externally without telling the pool
    dirs = set()        # live paths that somebody has replaced by a directory: os.remove() on them fails with an OSError
    everything = []
    created_before_fault = 0
    flush_then_create = False
    flushed = False

    def fail(what, msg):
        ctx.fail("TmpPool/%s" % what, "%s (multi_proc=%s, fault_at=%r): %s" % (what, multi, fault_at, msg))

    def check(after):
        got = list(pool)
        if sorted(got) != sorted(live):
            fail("%s/listing-differs" % after, "pool lists %d paths, %d were created and not removed" % (len(got), len(live)))
            return False
        if len(pool) != len(live):
            fail("%s/len" % after, "len %d vs %d" % (len(pool), len(live)))
        on_disk = listdir(d)
        if on_disk != sorted(x for x in live if x not in gone):
            fail("%s/disk-differs" % after, "on disk %d files, expected exactly the %d live paths" % (len(on_disk), len(live) - len(gone)))
            return False
        return True

    def body_fn():
        nonlocal flushed, flush_then_create, created_before_fault
        for pos, o in enumerate(body):
            if fault_at == pos:
                raise Boom(pos)
            k = o[0]
            if k == "create":
                p = pool.create()
                if p in everything:
                    fail("create/duplicate-path", "create() returned %r twice" % p)
                if not os.path.isfile(p):
                    fail("create/not-existing", "create() returned %r which is not an existing file" % p)
                everything.append(p)
                live.append(p)
                created_before_fault += 1
                if flushed:
                    flush_then_create = True
            elif k in ("remove", "ext_remove", "reenter") and dirs:
                continue
            elif k == "remove" and live:
                p = live.pop(o[1] % len(live))
                gone.discard(p)
                pool.remove(p)
                if os.path.exists(p):
                    fail("remove/still-exists", "removed path still exists")
            elif k == "ext_remove" and live:
                p = live.pop(o[1] % len(live))
                if p in gone:
                    gone.discard(p)
                else:
                    os.remove(p)
                pool.remove(p)
            elif k == "ext_delete_only" and live:
                # somebody deletes a pool file behind the pool's back: the pool still lists it; flush()/exit must cope
                p = live[o[1] % len(live)]
                if p not in gone and p not in dirs:
                    os.remove(p)
                    gone.add(p)
                    ctx.label("externally-deleted-file-in-pool")
                    ctx.nontrivial = True
            elif k == "ext_to_dir" and live and not multi and use_with and fault_at is None and not dirs:
                # a pool file is replaced by a directory behind the pool's back: the clean-up at exit fails with an OSError; the
                # caller repairs the cause and flushes again - which must still remove everything the pool created
                p = live[o[1] % len(live)]
                if p not in gone:
                    os.remove(p)
                    os.mkdir(p)
                    dirs.add(p)
                    ctx.label("pool-file-replaced-by-a-directory")
            elif k == "flush" and dirs:
                continue
            elif k == "flush":
                pool.flush()
                live.clear()
                gone.clear()
                flushed = True
                if os.listdir(d):
                    fail("flush/files-left", "%d files left after flush()" % len(os.listdir(d)))
            elif k == "reenter" and not multi and use_with:
                # the context of a (single-process) pool that already owns files is entered again, e.g. by a helper the pool was
                # handed to: the files created before stay the pool's, and leaving the inner context removes everything
                with pool:
                    p = pool.create()
                    everything.append(p)
                    live.append(p)
                    if not check("reenter"):
                        return
                live.clear()
                gone.clear()
                if os.listdir(d):
                    fail("reenter/files-left", "%d files left after leaving the inner context" % len(os.listdir(d)))
                ctx.label("context-entered-while-owning-files")
            elif k == "len":
                if len(pool) != len(live):
                    fail("len/wrong", "len %d vs %d" % (len(pool), len(live)))
            elif k == "index" and live:
                i = o[1] % len(live)
                if pool[i] not in live:
                    fail("index/not-a-live-path", "pool[%d] is not a live path" % i)
            if not check(k):
                return
        if fault_at == len(body):
            raise Boom(len(body))

    procs = []
    try:
        raised = None
        try:
            if use_with:
                if not multi:
                    # a single-process pool may be used before its context is entered; those files are the pool's as well
                    for _ in range(case.get("pre", 0)):
                        p = pool.create()
                        everything.append(p)
                        live.append(p)
                        ctx.label("created-before-the-context-was-entered")
                with pool:
                    if not multi and case.get("pre") and not check("enter"):
                        return
                    if multi and case.get("children"):
                        mp = multiprocessing.get_context("fork")
                        for n in case["children"]:
                            pr = mp.Process(target=child_main, args=(pool, n))
                            pr.start()
                            procs.append(pr)
                        for pr in procs:
                            pr.join(60)
                            if pr.exitcode is None:
                                from ..common import Inconclusive
                                raise Inconclusive("a child process did not finish within 60 s")   # a harness limit is never a verdict
                            if pr.exitcode != 0:
                                fail("child/failed", "child exit code %r" % pr.exitcode)
                        expected = sum(case["children"])
                        now = list(pool)
                        if len(now) != expected or sorted(now) != listdir(d):
                            fail("child/listing-differs", "children created %d files, pool lists %d, disk has %d" % (expected, len(now), len(os.listdir(d))))
                        live.extend(now)
                        everything.extend(now)
                        ctx.label("child-created-file")
                        ctx.nontrivial = True
                    body_fn()
            else:
                try:
                    body_fn()
                finally:
                    pool.flush()
        except Boom as e:
            raised = e
        except OSError as e:
            if not dirs:
                raise
            # expected: the exit clean-up could not remove the directory. Repair and flush again.
            # ... in half of the cases by putting a plain file back where the pool had created one: that path was created by the
            # pool and never removed, so it is still the pool's to list and to remove (a flush that forgets a path *before* it has
            # removed it was seeded in round 16; a directory that the harness deletes itself cannot show that)
            restore = len(everything) % 2 == 1
            for p in dirs:
                os.rmdir(p)
                if restore:
                    with open(p, "w"):
                        pass
                    ctx.label("failed-removal-repaired-by-restoring-the-file")
            try:
                pool.flush()
            except Exception as e2:  # noqa
                fail("flush-after-failed-exit/exception-%s" % type(e2).__name__, repr(e2))
            if os.listdir(d):
                fail("flush-after-failed-exit/files-left", "%d files left: the failed clean-up at exit made the pool forget files it had not removed yet" % len(os.listdir(d)))
            ctx.nontrivial = True
            return
        if dirs:
            # the exit clean-up did not raise (an implementation may skip what it cannot remove): the same repair-and-flush applies
            for p in dirs:
                if os.path.isdir(p):
                    os.rmdir(p)
            pool.flush()
            if os.listdir(d):
                fail("flush-after-failed-exit/files-left", "%d files left after the cause was repaired and flush() called again" % len(os.listdir(d)))
            return
        if fault_at is not None and (raised is None or raised.args != (fault_at,)):
            fail("exception-not-propagated", "the body raised Boom(%r) but %r came out of the with-block" % (fault_at, raised))
        if fault_at is None and raised is not None:
            fail("spurious-exception", repr(raised))
        left = os.listdir(d)
        if left:
            fail("exit/files-left", "%d of %d created files still exist after leaving the context" % (len(left), len(everything)))
        if fault_at is not None and created_before_fault:
            ctx.label("exception-after-create")
            ctx.nontrivial = True
        if flush_then_create:
            ctx.label("flush-then-create")
            ctx.nontrivial = True
    finally:
        for pr in procs:
            if pr.is_alive():
                pr.kill()
        # harness hygiene, not part of the property: the constructor of a multi_proc pool starts a manager of its own
        if first_manager is not None:
            try:
                first_manager.shutdown()
            except Exception:  # noqa
                pass
        m2 = getattr(pool, "_manager", None)
        if m2 is not None and m2 is not first_manager and not use_with:
            try:
                m2.shutdown()
            except Exception:  # noqa
                pass


def run_tmp(case, ctx):
    ctx.label("tmp")
    if case["multi"]:
        ctx.label("multi-proc")
    faults = [None] + list(range(len(case["body"]) + 1))
    if case["multi"]:
        # manager start-up dominates: the fault positions of multi-process pools are thinned (first, middle, last)
        n = len(case["body"])
        faults = [None] + sorted({0, n // 2, n})
    with FG.Scratch() as sc:
        for i, p in enumerate(faults):
            run_tmp_once(case, ctx, p, sc, i)
            ctx.extra["fault_runs"] = ctx.extra.get("fault_runs", 0) + 1


MODES = ["r", "rb", "r+", "w", "wb", "a", "w+", "rb+", "r+b", "wb+", "ab+", "br", "a+", "rt"]


def open_fds_under(d):
    out = []
    try:
        for fd in os.listdir("/proc/self/fd"):
            try:
                t = os.readlink("/proc/self/fd/" + fd)
            except OSError:
                continue
            if t.startswith(d):
                out.append(t)
    except OSError:
        pass
    return out


def run_files_unopenable(case, ctx):
    """one of the given paths cannot be opened: entering the context raises, and nothing opened before it may stay open"""
    import gc
    ctx.label("files")
    ctx.label("filepool-unopenable-path")
    mode, n, bad = case["mode"], max(1, case["n"]), case["missing"] % max(1, case["n"])
    with FG.Scratch() as sc:
        paths = [sc.path("u%d.txt" % i) for i in range(n)]
        for i, q in enumerate(paths):
            if i == bad:
                if mode in ("r", "rb", "r+"):
                    continue            # missing file
                os.mkdir(q)             # a directory cannot be opened for writing / appending
            else:
                with open(q, "w") as fh:
                    fh.write("x\n")
        pool = F.FilePool(list(paths), mode)
        entered = False
        try:
            with pool:
                entered = True
        except OSError:
            pass
        except Exception as e:  # noqa
            ctx.fail("FilePool/unopenable/exception-%s" % type(e).__name__, "entering a pool with an unopenable path raised %r" % (e,))
        if entered:
            ctx.fail("FilePool/unopenable/entered", "the context was entered although %r cannot be opened in mode %r" % (paths[bad], mode))
        gc.collect()
        left = open_fds_under(sc.d)
        if left:
            ctx.fail("FilePool/unopenable/handles-left-open", "mode %r, %d paths, unopenable no. %d: descriptors still open after the failed enter: %d"
                     % (mode, n, bad, len(left)))
        if bad > 0:
            ctx.nontrivial = True


def run_files(case, ctx):
    if case.get("missing") is not None:
        return run_files_unopenable(case, ctx)
    ctx.label("files")
    mode = case["mode"]
    n = case["n"]
    body = case["body"]
    faults = [None] + list(range(len(body) + 1))
    with FG.Scratch() as sc:
        for p in faults:
            paths = [sc.path("f%d-%s.txt" % (i, "x" if p is None else p)) for i in range(n)]
            for q in paths:
                with open(q, "w") as fh:
                    fh.write("line of %s\n" % os.path.basename(q))
            gen = case.get("as_generator") and n > 0

            def fail(what, msg):
                ctx.fail("FilePool/%s" % what, "%s (mode=%s, %d files, fault_at=%r): %s" % (what, mode, n, p, msg))

            pool = F.FilePool((q for q in paths) if gen else list(paths), mode)
            handles = []
            raised = None
            try:
                with pool as pl:
                    if pl is not pool:
                        fail("enter/returns-other", "__enter__ does not return the pool")
                    if set(pool) != set(paths) or len(pool) != len(paths):
                        fail("keys-differ", "keys %r vs paths %r" % (sorted(pool), paths))
                    for q in paths:
                        h = pool[q]
                        handles.append(h)
                        if h.closed:
                            fail("handle-closed-inside", "handle of %s is closed inside the context" % q)
                        if getattr(h, "name", q) != q or ("b" in getattr(h, "mode", mode)) != ("b" in mode):
                            fail("handle-wrong", "handle name/mode %r/%r for %r/%r" % (h.name, h.mode, q, mode))
                    for pos, o in enumerate(body):
                        if p == pos:
                            raise Boom(pos)
                        if not paths:
                            continue
                        h = pool[paths[o[1] % len(paths)]]
                        if o[0] == "read" and ("r" in mode or "+" in mode):
                            h.read(5)
                        elif o[0] == "write" and any(ch in mode for ch in "wa+"):
                            h.write(b"x" if "b" in mode else "x")
                    if p == len(body):
                        raise Boom(len(body))
            except Boom as e:
                raised = e
            except Violation:
                raise
            except Exception as e:  # noqa
                fail("exception-%s" % type(e).__name__, repr(e))
            if p is not None and (raised is None or raised.args != (p,)):
                fail("exception-not-propagated", "raised Boom(%r), got %r" % (p, raised))
            for h in handles:
                if not h.closed:
                    fail("handle-left-open", "a handle is still open after leaving the context")
                    break
            if p is not None and handles:
                ctx.label("exception-with-open-handles")
                ctx.nontrivial = True
            ctx.extra["fault_runs"] = ctx.extra.get("fault_runs", 0) + 1
    if n >= 2:
        ctx.label("multi-file")


class _OsProxy:
    """stands in for the `os` name inside windpyutils.files: remove() is a turn point of the cross-process schedule"""

    def __init__(self, real):
        self._real = real

    def remove(self, p):
        from .. import xproc
        xproc.hook(b"X")
        return self._real.remove(p)

    def __getattr__(self, n):
        return getattr(self._real, n)


def _conc_participant(gate, pool, prog, paths, as_child):
    from .. import xproc
    import json as _json
    if as_child:
        xproc.ME = gate
    else:
        xproc._local.gate = gate
    created = []
    err = None
    try:
        for o in prog:
            if o[0] == "remove":
                pool.remove(paths[o[1]])
            else:
                xproc.hook(b"C")
                created.append(pool.create())
    except Exception as e:  # noqa
        err = repr(e)
    os.write(gate.w_res, _json.dumps({"created": created, "err": err}).encode() + b"\n")
    os.write(gate.w_evt, b"D")


def run_conc(case, ctx):
    """several processes remove (their own share of) and create files of ONE multi_proc pool at the same time; turns are
    granted at every os.remove / create according to a generated schedule"""
    import threading
    from .. import xproc
    ctx.label("tmp-concurrent")
    ctx.label("multi-proc")
    with FG.Scratch() as sc:
        d = sc.path("pool")
        os.mkdir(d)
        pool = F.TmpPool(d, multi_proc=True)
        first_manager = getattr(pool, "_manager", None)
        saved_os = F.os
        procs = []
        gates = []
        th = None
        try:
            F.os = _OsProxy(saved_os)
            with pool:
                paths = [pool.create() for _ in range(case["initial"])]
                progs = case["progs"]           # progs[0] = parent, others = children; remove operands are indices into paths
                removed = set()
                norm = []
                for pr in progs:
                    mine = []
                    for o in pr:
                        if o[0] == "remove":
                            cand = [i for i in range(len(paths)) if i not in removed]
                            if not cand:
                                continue
                            i = cand[o[1] % len(cand)]
                            removed.add(i)
                            mine.append(["remove", i])
                        else:
                            mine.append(["create"])
                    norm.append(mine)
                gates = [xproc.Gate() for _ in norm]
                mp = multiprocessing.get_context("fork")
                for g, pr in zip(gates[1:], norm[1:]):
                    p = mp.Process(target=_conc_participant, args=(g, pool, pr, paths, True))
                    p.start()
                    procs.append(p)
                th = threading.Thread(target=_conc_participant, args=(gates[0], pool, norm[0], paths, False), daemon=True)
                th.start()
                trace = xproc.drive(gates, case["schedule"])
                results = [xproc.read_result(g) for g in gates]
                th.join(30)
                for p in procs:
                    p.join(30)
                for r_ in results:
                    if r_["err"]:
                        ctx.fail("TmpPool/concurrent/exception", "a participant raised %s" % r_["err"])
                live = sorted([paths[i] for i in range(len(paths)) if i not in removed] + [q for r_ in results for q in r_["created"]])
                listed = sorted(list(pool))
                if listed != live:
                    ctx.fail("TmpPool/concurrent/listing-differs", "after concurrent create/remove the pool lists %d paths, %d were created and not removed "
                             "(listed but removed: %d, live but not listed: %d)" % (len(listed), len(live), len(set(listed) - set(live)), len(set(live) - set(listed))))
                on_disk = listdir(d)
                if on_disk != live:
                    ctx.fail("TmpPool/concurrent/disk-differs", "on disk %d files, expected the %d live paths" % (len(on_disk), len(live)))
                if len({i for i, _ in trace}) >= 2:
                    alternations = sum(1 for a, b in zip(trace, trace[1:]) if a[0] != b[0])
                    if alternations >= 2:
                        ctx.label("interleaved-removes")
                        ctx.nontrivial = True
            left = os.listdir(d)
            if left:
                ctx.fail("TmpPool/concurrent/files-left-after-exit", "%d files left after leaving the context" % len(left))
        finally:
            F.os = saved_os
            for p in procs:
                if p.is_alive():
                    p.kill()
            for g in gates:
                g.close()
            if first_manager is not None:
                try:
                    first_manager.shutdown()
                except Exception:  # noqa
                    pass


def run_case(case, ctx):
    {"tmp": run_tmp, "files": run_files, "conc": run_conc}[case["kind"]](case, ctx)
    if ctx.extra.get("fault_runs"):
        ctx.label("fault-runs")


def strategies(tier):
    big = tier == "thorough"
    body = st.one_of(codes(0, 5), codes(3, 12)).map(lambda cs: [dec_tmp(c) for c in cs])
    single = st.fixed_dictionaries({"kind": st.just("tmp"), "multi": st.just(False), "use_with": st.sampled_from([True, True, True, False]),
                                    "pre": st.sampled_from([0, 0, 0, 1, 2]), "body": body})
    multi = st.fixed_dictionaries({"kind": st.just("tmp"), "multi": st.just(True), "use_with": st.just(True),
                                   "children": st.lists(st.integers(1, 3), min_size=0, max_size=3),
                                   "body": codes(0, 6).map(lambda cs: [dec_tmp(c) for c in cs])})
    files = st.fixed_dictionaries({"kind": st.just("files"), "mode": st.sampled_from(MODES), "n": st.integers(0, 5),
                                   "missing": st.one_of(st.none(), st.none(), st.none(), st.integers(0, 4)),
                                   "as_generator": st.booleans(),
                                   "body": codes(0, 6).map(lambda cs: [[["read", "write"][c % 2], (c // 2) % 5] for c in cs])})
    cop = st.one_of(st.tuples(st.just("remove"), st.integers(0, 9)).map(list), st.tuples(st.just("remove"), st.integers(0, 9)).map(list), st.just(["create"]))
    conc = st.fixed_dictionaries({"kind": st.just("conc"), "initial": st.integers(2, 6),
                                  "progs": st.lists(st.lists(cop, min_size=1, max_size=4), min_size=2, max_size=3),
                                  "schedule": st.lists(st.integers(0, 3), max_size=20)})
    return [("tmp-single", single, 200000 if big else 2500), ("tmp-multi-proc", multi, 8000 if big else 240),
            ("tmp-concurrent-removers", conc, 8000 if big else 240),
            ("filepool", files, 200000 if big else 2500)]


def enumerations(tier):
    return []
