"""Shared case generators, sweeps and minimisation for the pool properties C01-C04 (engine E2)."""
import copy
import os

from hypothesis import strategies as st

from ..common import Inconclusive
from ..sched import poolsim as P, schedules


def pin_shard(shard, nshards):
    """each shard pins itself to one CPU: all task threads of a shard take turns anyway (DESIGN.md §3 E2, measured)"""
    try:
        cpus = sorted(os.sched_getaffinity(0))
        os.sched_setaffinity(0, {cpus[shard % len(cpus)]})
    except (AttributeError, OSError):
        pass


def call_strategy(max_n=12, lazy_weight=2, late=True):
    inputs = ["list", "range", "tuple", "iter", "keys", "deque", "intseq"] + ["gen"] * (lazy_weight + 2)
    return st.fixed_dictionaries({
        "mode": st.sampled_from(["o", "o", "u"]),
        "n": st.one_of(st.integers(0, max_n), st.integers(0, 4)),
        "chunk": st.sampled_from([1, 1, 2, 3, 5, 20]),
        "input": st.sampled_from(inputs),
        "delays": st.lists(st.sampled_from([0, 0, 0, 3, 40, 400]), min_size=1, max_size=3),
        "tail": st.sampled_from([0, 0, 5, 60, 600, 3000] if late else [0]),
    })


def with_special_items(case):
    """every call gets items that are None / falsy / empty containers (results: the items themselves)"""
    for ci, call in enumerate(case["calls"]):
        call["vals"] = [(call["n"] * 7 + ci * 3 + i * (1 + call.get("tail", 0) % 5) + (i * i) % 3) % len(P.SPECIAL) for i in range(call["n"])]
    case["special"] = True
    return case


def pool_strategy(kinds=("functor", "factory"), max_calls=1, quotas=(None,), max_n=12, min_calls=1, sched=None):
    return st.fixed_dictionaries({
        "pool": st.sampled_from(list(kinds)),
        "workers": st.sampled_from([1, 2, 2, 3]),
        "quota": st.sampled_from(list(quotas)),
        "wq": st.sampled_from([None, 1, 2, 3, "0.4", "1.0", "1.0", "2.0"]),
        "rq": st.sampled_from([None, None, 1, 2, 3]),
        "calls": st.lists(call_strategy(max_n), min_size=min_calls, max_size=max_calls),
        "slow": st.dictionaries(st.sampled_from(["0", "1", "2", "5"]), st.sampled_from([5, 50, 500]), max_size=2),
        "cdelay": st.lists(st.sampled_from([0, 0, 0, 10, 200]), min_size=1, max_size=3),
        "begin_delay": st.sampled_from([0, 0, 20, 300]),
        "repl_begin_delay": st.sampled_from([0, 0, 50]),
        "end_delay": st.sampled_from([0, 0, 30, 400]),
        "ready_at": st.sampled_from([None, None, 0, 1]),
        "ready_mid": st.sampled_from([None, None, None, [0, 1], [0, 2], [1, 1], [0, 3]]),
        "join_timeout": st.sampled_from([None, None, None, None, 1, 30]),
        "ready_thread": st.sampled_from([None, None, None, {"start": 0, "gap": 1, "reps": 8}, {"start": 10, "gap": 3, "reps": 5},
                                         {"start": 30, "gap": 10, "reps": 3}]),
        "sched": sched or schedules.strategy(),
    }).map(normalise)


def normalise(case):
    if case["pool"] == "functor":
        case["quota"] = None
    return case


def sweep(configs, bound, bases=("spawned-first", "continue"), thin=1):
    """bounded-exhaustive: for each small configuration, every schedule with at most `bound` deviations from each base policy
    (stateless DFS by replay: a run reports the number of options at every decision)"""
    def gen():
        for cfg in configs:
            for base in bases:
                spec0 = {"kind": "dev", "base": base, "pick": "lowest", "deliver": "late", "gran": cfg.get("_gran", "line"), "dev": []}
                yield dict(copy.deepcopy(cfg), sched=spec0)
                try:
                    r = P.run_pool_case(dict(copy.deepcopy(cfg), sched=spec0))
                except Inconclusive:
                    continue
                nopts = list(r.sched.nopts)
                for step, n in enumerate(nopts, start=1):
                    for k in range(1, n):
                        spec1 = dict(spec0, dev=[[step, k]])
                        yield dict(copy.deepcopy(cfg), sched=spec1)
                        if bound >= 2:
                            try:
                                r1 = P.run_pool_case(dict(copy.deepcopy(cfg), sched=spec1))
                            except Inconclusive:
                                continue
                            n1 = list(r1.sched.nopts)
                            for step2 in range(step + 1, len(n1) + 1, thin):
                                for k2 in range(1, n1[step2 - 1]):
                                    yield dict(copy.deepcopy(cfg), sched=dict(spec0, dev=[[step, k], [step2, k2]]))
    return gen


def sweep_shared(configs, bases=("spawned-first", "continue")):
    """bounded-exhaustive at the granularity that matters for atomicity violations: every schedule with at most TWO deviations,
    both placed right before an access to an attribute of the pool object (the state shared by consumer, sending thread and
    replace thread), for small configurations run with traced attribute access (gran=attr)"""
    def gen():
        for cfg in configs:
            for base in bases:
                spec0 = {"kind": "dev", "base": base, "pick": "lowest", "deliver": "late", "gran": "attr", "dev": []}
                yield dict(copy.deepcopy(cfg), sched=spec0)
                try:
                    r = P.run_pool_case(dict(copy.deepcopy(cfg), sched=spec0))
                except Inconclusive:
                    continue
                n0 = list(r.sched.nopts)
                for s1 in list(r.sched.shared_steps):
                    for k1 in range(1, n0[s1 - 1]):
                        spec1 = dict(spec0, dev=[[s1, k1]])
                        yield dict(copy.deepcopy(cfg), sched=spec1)
                        try:
                            r1 = P.run_pool_case(dict(copy.deepcopy(cfg), sched=spec1))
                        except Inconclusive:
                            continue
                        n1 = list(r1.sched.nopts)
                        for s2 in r1.sched.shared_steps:
                            if s2 <= s1:
                                continue
                            for k2 in range(1, n1[s2 - 1]):
                                yield dict(copy.deepcopy(cfg), sched=dict(spec0, dev=[[s1, k1], [s2, k2]]))
    return gen


def explicit(case, res):
    """the replayable form of the run: same case with the schedule rewritten as base policy + recorded deviations"""
    c = copy.deepcopy(case)
    c["sched"] = schedules.to_dev(case.get("sched") or {}, res.sched.recorded)
    return c


def minimise(case, sig, verdict_fn, budget=400):
    """ddmin over the deviation list, then greedy simplification of the configuration; keeps the same signature"""
    def fails(c):
        nonlocal budget
        if budget <= 0:
            return False
        budget -= 1
        try:
            r = P.run_pool_case(c)
        except Inconclusive:
            return False
        except Exception:  # noqa
            return False
        return any(s == sig for s, _ in verdict_fn(c, r))

    try:
        r = P.run_pool_case(case)
    except Exception:  # noqa
        return case
    cur = explicit(case, r)
    if not fails(cur):
        return case
    # 1. ddmin on deviations
    dev = cur["sched"]["dev"]
    n = 2
    while len(dev) >= 1 and budget > 0:
        chunk = max(1, len(dev) // n)
        reduced = False
        for i in range(0, len(dev), chunk):
            cand = dev[:i] + dev[i + chunk:]
            c2 = copy.deepcopy(cur)
            c2["sched"]["dev"] = cand
            if fails(c2):
                dev = cand
                cur = c2
                n = max(2, n - 1)
                reduced = True
                break
        if not reduced:
            if chunk == 1:
                break
            n = min(len(dev), n * 2)
    # 2. greedy configuration simplification
    def attempts(c):
        if len(c["calls"]) > 1:
            for i in range(len(c["calls"])):
                d = copy.deepcopy(c)
                del d["calls"][i]
                yield d
        for i, call in enumerate(c["calls"]):
            for key, val in (("tail", 0), ("delays", [0]), ("input", "list"), ("chunk", 1), ("mode", "o")):
                if call.get(key) != val:
                    d = copy.deepcopy(c)
                    d["calls"][i][key] = val
                    yield d
            if call["n"] > 0:
                d = copy.deepcopy(c)
                d["calls"][i]["n"] = call["n"] - 1
                yield d
                d = copy.deepcopy(c)
                d["calls"][i]["n"] = call["n"] // 2
                yield d
        for key, val in (("slow", {}), ("cdelay", [0]), ("begin_delay", 0), ("repl_begin_delay", 0), ("end_delay", 0), ("ready_at", None), ("ready_mid", None), ("ready_thread", None), ("join_timeout", None), ("rq", None), ("wq", "1.0")):
            if c.get(key) != val:
                d = copy.deepcopy(c)
                d[key] = val
                yield d
        if c["workers"] > 1:
            d = copy.deepcopy(c)
            d["workers"] -= 1
            yield d
    progress = True
    while progress and budget > 0:
        progress = False
        for cand in attempts(cur):
            # after a configuration change the step numbers move: re-run, re-derive the explicit schedule from scratch too
            if fails(cand):
                cur = cand
                progress = True
                break
            c0 = copy.deepcopy(cand)
            c0["sched"]["dev"] = []
            if fails(c0):
                cur = c0
                progress = True
                break
    return cur


def real_strategy(base, n_small=True):
    """the same case format, marked for the reality tier (E4): real processes, sleeps instead of scheduler delays"""
    def mark(c):
        c = dict(c)
        c["real"] = True
        c.setdefault("kind", "pool")
        c.pop("sched", None)
        return c
    return base.map(mark)


def judge_real(case, ctx, name, want_values=True, want_liveness=True):
    from .. import reality
    from ..common import Inconclusive
    r = reality.run_real(case)
    ctx.label("real-processes")
    ctx.nontrivial = True
    if r["verdict"] == "inconclusive":
        raise Inconclusive("real run exceeded the wall-clock guard or ended without a result")
    if r["verdict"] == "deadlock":
        if want_liveness:
            ctx.fail("%s/real-processes/quiescent-before-finishing" % name,
                     "no process of the case consumed CPU for %ds while call %d of %d was unfinished" % (reality.QUIET, r["calls_done"], len(case["calls"])))
        return r
    if r.get("exc") and want_values:
        ctx.fail("%s/real-processes/exception" % name, r["exc"])
    if want_values:
        for ci, got in enumerate(r["outputs"][:r["calls_done"]]):
            call = case["calls"][ci]
            exp = P.expected_for(call, ci)
            ok = got == exp if call.get("mode", "o") == "o" else sorted(got) == sorted(exp)
            if not ok:
                ctx.fail("%s/real-processes/%s" % (name, P.classify_diff(got, exp, ci)), "call %d gave %r expected %r" % (ci, P.short(got), P.short(exp)))
    return r
