"""C01 — ordered imap returns exactly map(f, data), once each, in input order (E2 scheduler + E5 schedule sweeps)."""
from . import poolcases as PC
from ..sched import poolsim as P
from ..common import case_hash

ID = "C01"
LEVEL = "exploration"
RULE = ("Cases: pool kind FunctorPool / FactoryFunctorPool (no quota), workers 1..3, chunk_size 1..20 (also > len), work_queue_maxsize in "
        "{None,1,2,3,0.4,1.0,2.0}, results_queue_maxsize in {None,1,2,3}, input of 0..12 distinct ints delivered as list / range / "
        "generator whose items and StopIteration arrive after drawn delays, imap or imap_unordered, slow items (later chunks overtake), "
        "slow consumer; a second part uses items that are None, falsy values and empty containers with the identity as functor (None and falsy results); the unmodified pool code runs under the harness-owned scheduler (every primitive operation and every source "
        "line of own_proc_pools.py / buffers.py is a preemption point) with a generated schedule (<=6 deviations from a base policy, "
        "PCT priorities, or a seeded sticky walk). Oracle: the fully consumed call yields [f(x) for x in data] (imap) / the same "
        "multiset with in-chunk order (imap_unordered); no exception leaves the consumer or any pool thread; after the call no queue "
        "holds a result or work chunk (payload-free tokens ignored); a call that hangs before all of map(f, data) was yielded has lost those results. E5: every schedule with <=1 (quick) / <=2 (thorough) deviations "
        "for five small configurations (two of them with preemption at every attribute access of the pool object, i.e. also inside a source line); additionally every schedule with <=2 deviations placed right before accesses to attributes of the pool object (shared state) for two small configurations. Non-trivial: a chunk result reached the results queue out of index order, or the schedule "
        "deviates from the base policy, or flow control paused the feeder. Distinct = distinct (configuration, interleaving signature).")
EXPLANATION = "exhaustive sub-domain: all schedules with <=b deviations from two base policies for the listed small configurations"
ASSUMPTIONS = ["stand-ins have the semantics of the real primitives (DESIGN.md §3 E2 table)", "preemption granularity: source line + primitive operation",
               "worker processes are threads on fork copies"]
FLOORS = {"out-of-order-arrival": (0.03, "drawn"), "lazy-input": (0.2, "drawn"), "empty-input": (0.02, "drawn"), "bounded-results-queue": (0.2, "drawn")}
SHARDS = {"quick": 14, "thorough": 14}
CASE_FUEL = None
HYP_SHRINK = False
WALL_GUARD = {"quick": 1500, "thorough": 8 * 3600}


def shard_setup(shard, nshards):
    PC.pin_shard(shard, nshards)


def verdicts(case, res):
    out = P.value_verdicts(case, res)
    if not out and isinstance(res.outcome, tuple) and res.outcome[0] == "deadlock" and not res.left_context \
            and res.calls_done < len(case["calls"]) and len(res.outputs) > res.calls_done:
        # the call can never be consumed to its end and part of map(f, data) has not been yielded: those results are lost to the
        # caller (a call that hangs after everything was yielded is C02's business alone)
        ci = res.calls_done
        exp = P.expected_for(case["calls"][ci], ci)
        got = res.outputs[ci]
        if len(got) < len(exp):
            name = "FactoryFunctorPool" if case["pool"] == "factory" else "FunctorPool"
            mode = "imap" if case["calls"][ci]["mode"] == "o" else "imap_unordered"
            out.append(("%s/%s/results-never-delivered-call-hangs" % (name, mode),
                        "call %d yielded %d of %d results and can never continue: %s" % (ci, len(got), len(exp), P.describe_deadlock(res))))
    return out


def run_case(case, ctx):
    if case.get("real"):
        PC.judge_real(case, ctx, "FactoryFunctorPool" if case["pool"] == "factory" else "FunctorPool", True, False)
        return
    res = P.run_pool_case(case)
    labs = P.labels_for(case, res)
    ctx.label(*labs)
    if case.get("_drawn", True):
        ctx.label("drawn")
    ctx.extra["distinct_key"] = case_hash({k: v for k, v in case.items() if k != "sched"}) + res.sched.signature()
    if labs & {"out-of-order-arrival", "schedule-deviates-from-base", "flow-control-paused"}:
        ctx.nontrivial = True
    for sig, msg in verdicts(case, res):
        ctx.fail(sig, msg, detail={"explicit_schedule": PC.explicit(case, res)["sched"]})


def minimize(case, sig):
    return PC.minimise(case, sig, verdicts)


SMALL = [
    {"pool": "functor", "workers": 1, "quota": None, "wq": "1.0", "rq": None, "calls": [{"mode": "o", "n": 2, "chunk": 1, "input": "list"}], "_drawn": False},
    {"pool": "functor", "workers": 2, "quota": None, "wq": "1.0", "rq": 1, "calls": [{"mode": "o", "n": 3, "chunk": 1, "input": "gen", "delays": [0], "tail": 0}], "slow": {"0": 30}, "_drawn": False},
    {"pool": "factory", "workers": 2, "quota": None, "wq": 1, "rq": None, "calls": [{"mode": "u", "n": 3, "chunk": 2, "input": "range"}], "_drawn": False},
    # the last item arrives after every earlier result has been consumed; preemption also between two attribute reads of one line
    {"pool": "functor", "workers": 1, "quota": None, "wq": "1.0", "rq": None, "calls": [{"mode": "o", "n": 2, "chunk": 1, "input": "gen", "delays": [0, 300], "tail": 0}], "_gran": "attr", "_drawn": False},
    {"pool": "functor", "workers": 2, "quota": None, "wq": "1.0", "rq": None, "calls": [{"mode": "u", "n": 3, "chunk": 1, "input": "gen", "delays": [0, 0, 300], "tail": 0}], "_gran": "attr", "_drawn": False},
]


SHARED = [
    {"pool": "functor", "workers": 1, "quota": None, "wq": "1.0", "rq": None, "calls": [{"mode": "o", "n": 2, "chunk": 1, "input": "list"}], "_drawn": False},
    {"pool": "functor", "workers": 1, "quota": None, "wq": "1.0", "rq": None, "calls": [{"mode": "u", "n": 2, "chunk": 1, "input": "gen", "delays": [0, 200], "tail": 0}], "_drawn": False},
]


def enumerations(tier):
    b = 2 if tier == "thorough" else 1
    return [("all-schedules-<=2-deviations-at-shared-attribute-accesses-2-small-configs", PC.sweep_shared(SHARED), True),("all-schedules-<=%d-deviations-5-small-configs" % b, PC.sweep(SMALL, b, thin=1 if tier == "thorough" else 1), True)]


def strategies(tier):
    return [("drawn-schedules", PC.pool_strategy(max_calls=2), 200000 if tier == "thorough" else 6000),
            ("drawn-none-and-falsy-items", PC.pool_strategy(max_calls=1).map(PC.with_special_items), 20000 if tier == "thorough" else 800),
            ("real-processes", PC.real_strategy(PC.pool_strategy(max_calls=1)), 300 if tier == "thorough" else 14, {"shrink": False})]
