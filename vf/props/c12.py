"""C12 — mutable line files act as a list of lines; save writes it; source untouched (E1)."""
import hashlib
import io

from hypothesis import strategies as st

from windpyutils import files as F

from . import filegen as FG
from ..common import codes, Violation

ID = "C12"
LEVEL = "exploration"
RULE = ("Cases: initial content as in C11 but without line breaks inside lines (no '\\n', no '\\r'), one of the four mutable variants "
        "(record variants with a pass-through record class), a history of <=30 operations from f[i]=s, del f[i], insert, append, extend, "
        "pop, remove, reverse, +=, reads (index, slice, iteration) and save(path|StringIO, line_ending in '\\n','\\r\\n','\\t',';',''), "
        "indices positive, negative and out of range, with read p - one operation - read p segments spliced in. Oracle: a Python list driven by the same operations (equal length after every step, equal items after "
        "every step or - a third of the histories - only through the history's own reads and after its last step; IndexError/ValueError parity); save writes exactly ''.join(line+line_ending); a file saved with '\\n' reopened "
        "through the buffered and the memory-mapped class gives the model list; dirty is False before the first mutating call and True "
        "whenever the content differs from the initial content; SHA-256 of the source unchanged. Non-trivial: a read of a line that is "
        "still file-backed after an insert/delete shifted its position, or a save of a mixed (file-backed + in-memory) view. "
        "Distinct = distinct case JSON.")
EXPLANATION = ""
ASSUMPTIONS = ["line contents contain no line breaks (the statement's domain)", "PYTHONUTF8=1"]
FLOORS = {"mixed-view-save": (0.08, None), "shifted-file-backed-read": (0.06, None), "same-position-read-around-reverse": (0.008, None)}
SHARDS = {"quick": 12, "thorough": 14}

OPS = ["get", "insert", "get", "del", "save", "set", "get", "slice", "insert", "save", "get", "del", "append", "extend", "pop", "remove",
       "reverse", "iadd", "slice", "save", "get", "insert", "set", "save", "list", "del", "get", "save"]
TEXTS = ["", "a", "b", " ", "\t", "a b", "é", "€𝄞", " lead", "trail ", ",", "\"", "0", "new", "x" * 300]
ENDS = ["\n", "\r\n", "\n", "\t", ";", "\n", ""]


def dec(c):
    op = OPS[c % len(OPS)]
    x = c // len(OPS)
    i = x % 19 - 9
    x //= 19
    t = TEXTS[x % len(TEXTS)]
    x //= len(TEXTS)
    if op in ("set", "insert"):
        return [op, i, t]
    if op in ("del", "get"):
        return [op, i]
    if op in ("append", "remove"):
        return [op, t]
    if op in ("extend", "iadd"):
        n = x % 4
        return [op, [TEXTS[(x // 4 + 5 * j) % len(TEXTS)] for j in range(n)]]
    if op == "pop":
        return [op, None if i == -9 else i]
    if op == "slice":
        a = x % 12
        b = (x // 12) % 12
        s = (x // 144) % 5
        return [op, None if a == 11 else a - 5, None if b == 11 else b - 5, [None, 1, 2, -1, -2][s]]
    if op == "save":
        return [op, ENDS[x % len(ENDS)], bool((x // len(ENDS)) % 3)]
    return [op]


def run_case(case, ctx):
    cls, mm, rec = FG.VARIANTS[case["variant"]]
    name = case["variant"]
    content = FG.content_of(case["lines"], case["final_nl"])
    raw = content.encode("utf-8")
    if not raw and mm:
        ctx.label("skipped-empty-mmap")
        return
    ref = FG.reference_lines(content)
    W = (lambda s: FG.TextRecord(s)) if rec else (lambda s: s)
    T = (lambda m: m.t) if rec else (lambda m: m)
    model = [W(x) for x in ref]
    backed = [True] * len(model)   # which model positions are still file-backed (for the non-triviality rule only)
    h0 = hashlib.sha256(raw).hexdigest()

    def fail(what, msg):
        ctx.fail("mutable-line-file/%s" % what, "%s (%s): %s" % (what, name, msg))

    with FG.Scratch() as sc:
        src = sc.write("src.txt", raw)
        try:
            f = cls(src, FG.TextRecord) if rec else cls(src)
        except Exception as e:  # noqa
            fail("init/exception-%s" % type(e).__name__, repr(e))
            return
        mutated = False
        shifted = False
        sparse = case.get("observe") == "sparse"
        around = {}
        if sparse:
            ctx.label("observed-only-through-its-own-reads")
        try:
            with f:
                if not rec and f.dirty is not False:
                    fail("dirty/true-before-modification", "dirty=%r right after opening" % (f.dirty,))
                for o in case["ops"]:
                    k = o[0]
                    # generator coverage only: a single read of position i, a reverse(), and the next read is of position i again
                    if not sparse:
                        pass
                    elif k == "get" and -len(model) <= o[1] < len(model):
                        if around.get("rev") == o[1] % len(model):
                            ctx.label("same-position-read-around-reverse")
                        around = {"pos": o[1] % len(model)}
                    elif k == "reverse":
                        around = {"rev": around.get("pos", around.get("rev"))}
                    elif k in ("slice", "save", "list", "del", "insert", "pop", "remove") or not sparse:
                        around = {}

                    def both(fa, fb, what):
                        ea = eb = None
                        ra = rb = None
                        try:
                            ra = fa()
                        except (IndexError, ValueError) as e:
                            ea = type(e)
                        try:
                            rb = fb()
                        except (IndexError, ValueError) as e:
                            eb = type(e)
                        if ea != eb:
                            fail("%s/exception-parity" % what, "%r: file raised %s, list raised %s (len %d)" % (o, ea and ea.__name__, eb and eb.__name__, len(model)))
                            raise _Stop()
                        if ra != rb:
                            fail("%s/wrong-result" % what, "%r returned %r, list gives %r" % (o, short(ra), short(rb)))
                            raise _Stop()
                        return eb is None

                    if k == "set":
                        if both(lambda: f.__setitem__(o[1], W(o[2])), lambda: model.__setitem__(o[1], W(o[2])), k):
                            backed[o[1]] = False
                        mutated = True
                    elif k == "del":
                        if both(lambda: f.__delitem__(o[1]), lambda: model.__delitem__(o[1]), k):
                            del backed[o[1]]
                            shifted = True
                        mutated = True
                    elif k == "insert":
                        both(lambda: f.insert(o[1], W(o[2])), lambda: model.insert(o[1], W(o[2])), k)
                        backed.insert(o[1], False)
                        shifted = True
                        mutated = True
                    elif k == "append":
                        both(lambda: f.append(W(o[1])), lambda: model.append(W(o[1])), k)
                        backed.append(False)
                        mutated = True
                    elif k == "extend":
                        # like list.extend the argument is any iterable: a list, a tuple, a generator, a plain iterator
                        shape = [list, tuple, lambda xs: (x for x in xs), iter][len(model) % 4]
                        both(lambda: f.extend(shape([W(x) for x in o[1]])), lambda: model.extend([W(x) for x in o[1]]), k)
                        backed.extend([False] * len(o[1]))
                        mutated = True
                    elif k == "iadd":
                        def fa():
                            nonlocal f
                            f += [list, lambda xs: (x for x in xs), tuple, iter][len(model) % 4]([W(x) for x in o[1]])
                        both(fa, lambda: model.extend([W(x) for x in o[1]]), k)
                        backed.extend([False] * len(o[1]))
                        mutated = True
                    elif k == "pop":
                        args = [] if o[1] is None else [o[1]]
                        if both(lambda: f.pop(*args), lambda: model.pop(*args), k):
                            backed.pop(*args)
                            shifted = True
                        mutated = True
                    elif k == "remove":
                        before = list(model)
                        if both(lambda: f.remove(W(o[1])), lambda: model.remove(W(o[1])), k):
                            del backed[before.index(W(o[1]))]
                            shifted = True
                        mutated = True
                    elif k == "reverse":
                        both(lambda: f.reverse(), lambda: model.reverse(), k)
                        backed = [False] * len(model)   # reverse() re-assigns every position (documented MutableSequence mixin)
                        mutated = True
                    elif k == "get":
                        ok = both(lambda: f[o[1]], lambda: model[o[1]], k)
                        if ok and shifted and backed[o[1]]:
                            ctx.label("shifted-file-backed-read")
                            ctx.nontrivial = True
                    elif k == "slice":
                        sl = slice(o[1], o[2], o[3])
                        both(lambda: f[sl], lambda: model[sl], k)
                        if shifted and any(backed[sl]):
                            ctx.label("shifted-file-backed-read")
                            ctx.nontrivial = True
                    elif k == "list":
                        pass
                    elif k == "save":
                        end, to_path = o[1], o[2]
                        exp = "".join(T(m) + end for m in model).encode("utf-8")
                        if len(model) % 3 == 1:
                            # a save that cannot be written (no such directory) fails cleanly: it raises, and the next save is
                            # not affected by it
                            try:
                                f.save(sc.path("no-such-directory/out.txt"), end)
                                fail("save/unwritable-path-accepted", "save() into a missing directory did not raise")
                            except OSError:
                                ctx.label("failed-save-before-save")
                        if to_path:
                            out = sc.path("out.txt")
                            f.save(out, end)
                            with open(out, "rb") as fh:
                                got = fh.read()
                        else:
                            sio = io.StringIO(newline="")
                            f.save(sio, end)
                            got = sio.getvalue().encode("utf-8")
                        if got != exp:
                            fail("save/wrong-bytes", "save(line_ending=%r) wrote %r, expected %r" % (end, short(got), short(exp)))
                        if any(backed) and not all(backed):
                            ctx.label("mixed-view-save")
                            ctx.nontrivial = True
                        if end == "\n" and to_path:
                            readers = [F.RandomLineAccessFile] + ([F.MemoryMappedRandomLineAccessFile] if exp else [])
                            if rec:
                                readers = [F.RecordFile] + ([F.MemoryMappedRecordFile] if exp else [])
                            for c2 in readers:
                                with (c2(out, FG.TextRecord) if rec else c2(out)) as g:
                                    back = list(g)
                                if back != model:
                                    fail("save/reopen-differs", "reopened through %s: %r expected %r" % (c2.__name__, short(back), short(model)))
                            ctx.label("reopen")
                    else:
                        raise AssertionError(k)
                    if len(f) != len(model):
                        fail("%s/len-differs" % k, "len %d vs list %d after %r" % (len(f), len(model), o))
                        raise _Stop()
                    # a full scan after every operation is itself a sequence of reads and would hide state that only two
                    # *single* reads around a mutation can expose (a memoised last line, seeded in round 16): a third of the
                    # histories are observed only through the reads they contain, and in full after the last operation
                    if sparse and k != "list" and o is not case["ops"][-1]:
                        continue
                    cur = list(f)
                    if cur != model:
                        fail("%s/content-differs" % k, "after %r the file view is %r, list is %r" % (o, short(cur), short(model)))
                        raise _Stop()
                    if not rec:
                        if not mutated and f.dirty is not False:
                            fail("dirty/true-before-modification", "dirty=%r before any mutating call" % (f.dirty,))
                        if model != ref and f.dirty is not True:
                            fail("dirty/false-after-change", "dirty=%r although content %r differs from the initial %r" % (f.dirty, short(model), short(ref)))
        except _Stop:
            pass
        except Violation:
            raise
        except Exception as e:  # noqa
            fail("exception-%s" % type(e).__name__, "unexpected %r" % (e,))
        with open(src, "rb") as fh:
            h1 = hashlib.sha256(fh.read()).hexdigest()
        if h1 != h0:
            fail("source-modified", "the original file's bytes changed")
    ctx.label("mmap" if mm else "buffered")
    if rec:
        ctx.label("record-variant")


class _Stop(Exception):
    pass


def short(x):
    if isinstance(x, list):
        return [short(y) for y in x[:8]]
    if isinstance(x, FG.TextRecord):
        x = x.t
    if isinstance(x, (str, bytes)) and len(x) > 60:
        return x[:30] + (b"..." if isinstance(x, bytes) else "...")
    return x


def strategies(tier):
    big = tier == "thorough"
    line = FG.line_strategy(with_cr=False, with_long=True)
    # "read position p, do one thing, read position p again" segments between ordinary operations: state that survives from one
    # single read to the next (round 16) is only visible when nothing else is read in between
    code = st.integers(0, 2 ** 24 - 1)
    seg = st.one_of(code.map(lambda c: [dec(c)]),
                    st.tuples(st.integers(-8, 8), code).map(lambda t: [["get", t[0]], dec(t[1]), ["get", t[0]]]),
                    st.tuples(st.integers(-8, 8), st.sampled_from(["reverse", "list"])).map(lambda t: [["get", t[0]], ["reverse"], [t[1]] if t[1] == "list" else ["get", t[0]]]))
    probes = st.lists(seg, min_size=1, max_size=10).map(lambda ss: [o for sg in ss for o in sg])
    case = st.fixed_dictionaries({
        "variant": st.sampled_from([v for v in FG.VARIANTS if v.startswith("Mutable")]),
        "lines": st.one_of(st.lists(line, max_size=2), st.lists(line, min_size=3, max_size=8), st.lists(line, min_size=4, max_size=8)),
        "final_nl": st.booleans(),
        "observe": st.sampled_from(["each", "each", "sparse"]),
        "ops": st.one_of(codes(0, 6).map(lambda cs: [dec(c) for c in cs]), codes(6, 30).map(lambda cs: [dec(c) for c in cs]),
                         codes(8, 30).map(lambda cs: [dec(c) for c in cs]), probes),
    })
    return [("edit-histories", case, 600000 if big else 8000)]


def enumerations(tier):
    return []
