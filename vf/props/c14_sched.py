"""C14, concurrent part (E2): writers and readers of one TextFileStorage as scheduler tasks on fork copies; file I/O is real."""
import copy
import os

from hypothesis import strategies as st

import windpyutils.parallel.storage as stor

from . import filegen as FG
from . import poolcases as PC
from ..common import Inconclusive, case_hash
from ..sched import core, dispatch, prims, schedules
from ..sched.core import S, Sched

SUT_FILES = (stor.__file__,)


class SharedDict(prims.Shared, dict):
    pass


class SharedList(prims.Shared, list):
    pass


def text_of(w, g):
    return "text-%d-by-writer-%d-é€" % (g, w)


def run_sim(case):
    dispatch.install()
    spec = case.get("sched") or {"kind": "dev"}
    nops = sum(len(w) for w in case["writers"]) + sum(len(r) for r in case["readers"])
    sched = Sched(schedules.make_chooser(spec), SUT_FILES, max_steps=20000 + 3000 * nops)
    ctxs = prims.SimContext()
    out = {"reads": [], "store_results": [], "final": None, "exc": None}
    completed = SharedDict()     # id -> text, recorded by the writer when its store has returned
    reads = SharedList()
    stores = SharedList()

    with FG.Scratch() as sc, dispatch.Patch() as patch:
        d = sc.path("st")
        os.mkdir(d)
        patch.set(stor, "Manager", lambda: prims.SimManager())
        patch.set(stor, "multiprocessing", dispatch.multiprocessing_shim(ctxs))

        def writer(storage, w, ids):
            my = copy.deepcopy(storage)
            my.open()
            try:
                for g in ids:
                    t = text_of(w, g)
                    try:
                        my[g] = t
                        completed[g] = t
                        stores.append((w, g, "ok"))
                    except ValueError:
                        stores.append((w, g, "ValueError"))
            finally:
                my.close()

        def reader(storage, r, ids):
            my = copy.deepcopy(storage)
            my.reader_only = True
            try:
                for g in ids:
                    if g < 0:
                        done_before = dict(completed)
                        reads.append((r, -1, done_before, "iter", list(my)))
                        continue
                    was_done = completed.get(g)
                    try:
                        v = my[g]
                        reads.append((r, g, was_done, "ok", v))
                    except IndexError:
                        reads.append((r, g, was_done, "IndexError", None))
            finally:
                my.close()

        def main():
            try:
                storage = stor.TextFileStorage(d, number_of_data=case.get("presize"))
                s = S()
                tasks = []
                for w, ids in enumerate(case["writers"]):
                    tasks.append(s.spawn(lambda w=w, ids=ids: writer(storage, w, ids), "writer%d" % w, kind="process"))
                for r, ids in enumerate(case["readers"]):
                    tasks.append(s.spawn(lambda r=r, ids=ids: reader(storage, r, ids), "reader%d" % r, kind="process"))
                s.yield_point(lambda: all(t.done for t in tasks), what="join-all")
                # final state, read by the parent
                storage.reader_only = True
                fin = {"len": len(storage), "contig": storage.is_contiguous(), "iter": list(storage), "reads": {}}
                for g in range(case["max_id"] + 2):
                    try:
                        fin["reads"][g] = storage[g]
                    except IndexError:
                        fin["reads"][g] = None
                storage.close()
                out["final"] = fin
            except core.Abort:
                raise
            except BaseException as e:  # noqa
                out["exc"] = e

        outcome = sched.run(main)
    out["reads"] = list(reads)
    out["stores"] = list(stores)
    out["completed"] = dict(completed)
    out["outcome"] = outcome
    out["sched"] = sched
    out["task_excs"] = [(t.name, t.exc) for t in sched.tasks if t.exc is not None and t is not sched.main_task]
    if outcome in (("budget",), ("wall-guard",)) or (isinstance(outcome, tuple) and outcome[0] == "teardown-stuck"):
        raise Inconclusive("scheduler guard %r" % (outcome,))
    return out


def verdicts(case, out):
    v = []
    if out["exc"] is not None:
        v.append(("TextFileStorage/concurrent/exception-%s" % type(out["exc"]).__name__, repr(out["exc"])))
    for tn, e in out["task_excs"]:
        v.append(("TextFileStorage/concurrent/task-exception-%s" % type(e).__name__, "%s raised %r" % (tn, e)))
    if isinstance(out["outcome"], tuple) and out["outcome"][0] == "deadlock":
        v.append(("TextFileStorage/concurrent/deadlock", "; ".join("%s blocked on %s in %s" % x for x in out["outcome"][1])))
        return v
    cands = {}
    for w, ids in enumerate(case["writers"]):
        for g in ids:
            cands.setdefault(g, set()).add(text_of(w, g))
    import re
    for r, g, was_done, res, val in out["reads"]:
        if res == "iter":
            # a concurrent iteration: every yielded text is a complete stored text, ids strictly ascending, and every id whose
            # store had returned before the iteration started is present
            ids_seen = []
            for t in val:
                m = re.match(r"text-(\d+)-by-writer-(\d+)-", t or "")
                if not m or t not in cands.get(int(m.group(1)), ()):
                    v.append(("TextFileStorage/concurrent/iteration-yields-%s" % ("empty-text" if t == "" else "foreign-or-partial-text"),
                              "reader %d iteration yielded %r" % (r, t)))
                    break
                ids_seen.append(int(m.group(1)))
            else:
                if ids_seen != sorted(set(ids_seen)):
                    v.append(("TextFileStorage/concurrent/iteration-not-in-id-order", "reader %d iteration yielded ids %r" % (r, ids_seen)))
                missing = [g0 for g0 in was_done if g0 not in ids_seen]
                if missing:
                    v.append(("TextFileStorage/concurrent/iteration-misses-stored-id", "reader %d iteration yielded ids %r, stores of %r had returned before it started" % (r, ids_seen, missing)))
            continue
        if res == "ok":
            if val not in cands.get(g, ()):
                kind = "empty-read" if val == "" else "partial-or-foreign-read"
                v.append(("TextFileStorage/concurrent/%s" % kind, "reader %d read id %d -> %r, texts stored under it: %r" % (r, g, val, sorted(cands.get(g, ())))))
            elif was_done is not None and val != was_done:
                v.append(("TextFileStorage/concurrent/read-differs-from-completed-store", "id %d -> %r, completed store wrote %r" % (g, val, was_done)))
        else:
            if was_done is not None:
                v.append(("TextFileStorage/concurrent/IndexError-after-store-returned", "reader %d got IndexError for id %d although its store had returned" % (r, g)))
    # exactly one store per id succeeds
    ok = {}
    for w, g, res in out["stores"]:
        if res == "ok":
            ok.setdefault(g, []).append(w)
    for g, ws in ok.items():
        if len(ws) > 1:
            v.append(("TextFileStorage/concurrent/two-stores-under-one-id-accepted", "id %d stored by writers %r" % (g, ws)))
    fin = out["final"]
    if fin is not None and out["exc"] is None:
        ids = sorted(ok)
        if fin["len"] != len(ids):
            v.append(("TextFileStorage/concurrent/final-len-wrong", "len %d, stored ids %r" % (fin["len"], ids)))
        if bool(fin["contig"]) != (ids == list(range(len(ids)))):
            v.append(("TextFileStorage/concurrent/final-is_contiguous-wrong", "is_contiguous=%r, ids %r" % (fin["contig"], ids)))
        exp_iter = [out["completed"][g] for g in ids]
        if fin["iter"] != exp_iter:
            v.append(("TextFileStorage/concurrent/final-iteration-wrong", "iteration %r expected %r" % (fin["iter"], exp_iter)))
        for g, val in fin["reads"].items():
            exp = out["completed"].get(g)
            if val != exp:
                v.append(("TextFileStorage/concurrent/final-read-wrong", "id %d -> %r expected %r" % (g, val, exp)))
                break
    return v


def run_case(case, ctx):
    out = run_sim(case)
    ctx.label("concurrent")
    if case.get("_drawn", True):
        ctx.label("drawn-concurrent")
    if any(res == "iter" for _, _, _, res, _ in out["reads"]):
        ctx.label("concurrent-iteration")
    if any(res == "ok" and was_done is None for _, _, was_done, res, _ in out["reads"]):
        ctx.label("read-during-write")
        ctx.nontrivial = True
    if case.get("presize"):
        ctx.label("pre-sized")
    allids = [g for ids in case["writers"] for g in ids]
    if len(set(allids)) < len(allids):
        ctx.label("duplicate-store")
    if sorted(set(allids)) != list(range(len(set(allids)))):
        ctx.label("gap")
        ctx.nontrivial = True
    if out["sched"].recorded:
        ctx.label("schedule-deviates-from-base")
    ctx.extra["distinct_key"] = case_hash({k: v for k, v in case.items() if k != "sched"}) + out["sched"].signature()
    for sig, msg in verdicts(case, out):
        c2 = schedules.to_dev(case.get("sched") or {}, out["sched"].recorded)
        ctx.fail(sig, msg, detail={"explicit_schedule": c2})


def minimize(case, sig):
    cur = copy.deepcopy(case)

    def fails(c):
        try:
            o = run_sim(c)
        except Exception:  # noqa
            return False
        return any(s == sig for s, _ in verdicts(c, o))

    try:
        o = run_sim(cur)
    except Exception:  # noqa
        return case
    cur["sched"] = schedules.to_dev(case.get("sched") or {}, o["sched"].recorded)
    if not fails(cur):
        return case
    dev = cur["sched"]["dev"]
    i = 0
    budget = 300
    while i < len(dev) and budget > 0:
        cand = copy.deepcopy(cur)
        cand["sched"]["dev"] = dev[:i] + dev[i + 1:]
        budget -= 1
        if fails(cand):
            dev = cand["sched"]["dev"]
            cur = cand
        else:
            i += 1
    return cur


SMALL = [
    {"kind": "conc", "writers": [[0, 2], [1]], "readers": [[0, 1, 2, 0, 1, 2]], "presize": None, "max_id": 2, "_drawn": False},
    {"kind": "conc", "writers": [[1], [1, 0]], "readers": [[1, -1, 0, 1]], "presize": 3, "max_id": 2, "_drawn": False},
]


def sweep(configs, bound):
    def gen():
        for cfg in configs:
            for base in ("spawned-first", "continue"):
                for pick in ("lowest", "rr"):
                    spec0 = {"kind": "dev", "base": base, "pick": pick, "deliver": "late", "dev": []}
                    yield dict(copy.deepcopy(cfg), sched=spec0)
                    try:
                        r = run_sim(dict(copy.deepcopy(cfg), sched=spec0))
                    except Inconclusive:
                        continue
                    for step, n in enumerate(list(r["sched"].nopts), start=1):
                        for k in range(1, n):
                            yield dict(copy.deepcopy(cfg), sched=dict(spec0, dev=[[step, k]]))
    return gen


def enumerations(tier):
    return [("storage-all-schedules-<=1-deviation-2-small-configs", sweep(SMALL, 1), True)]


def strategies(tier):
    big = tier == "thorough"
    ids = st.lists(st.integers(0, 5), min_size=1, max_size=3)
    case = st.fixed_dictionaries({
        "kind": st.just("conc"),
        "writers": st.lists(ids, min_size=1, max_size=3),
        "readers": st.lists(st.lists(st.one_of(st.integers(0, 6), st.integers(0, 6), st.integers(0, 6), st.just(-1)), min_size=1, max_size=6), min_size=1, max_size=2),
        "presize": st.sampled_from([None, None, 0, 3, 7]),
        "max_id": st.just(6),
        "sched": schedules.strategy(max_dev=8, max_step=900),
    })
    return [("concurrent-schedules", case, 250000 if big else 4000, {"shrink": False})]
