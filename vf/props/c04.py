"""C04 — worker lifecycle: begin first once, end last once, quota kept, none left running.

Worker level (this file): BaseFunctorWorker.run() is executed directly on an instrumented subclass with harness queues, and
EVERY fault position (begin raises, functor raises at global item j for every j, end of work) is enumerated for each generated
workload. Pool level (E2, harness-owned scheduler): c04_sched.py, registered as further parts.
"""
import math
import queue
import threading

from hypothesis import strategies as st

from windpyutils.parallel.own_proc_pools import BaseFunctorWorker

from ..common import Violation

ID = "C04"
LEVEL = "fault_enumeration"
RULE = ("Worker-level cases: a workload (0..6 chunks of 0..4 items, then a stop order or nothing-but-quota), quota in {1..4, inf}, "
        "bounded/unbounded results queue (both the block=False path and the queue.Full fallback), and for each workload every fault "
        "in {none, begin raises, functor raises at global item j for every j, end raises} x what is raised {an Exception, a BaseException that is not an Exception, SystemExit, KeyboardInterrupt, GeneratorExit}; the real BaseFunctorWorker.run() runs on "
        "harness queues whose get() on an empty queue is a verdict ('asks for a chunk beyond its quota'), not a hang. Oracle: event "
        "log matches begin, item*, end with begin and end exactly once and end last also when an exception propagates; processed "
        "chunks <= quota; the results queue holds exactly the chunks completed before the fault, in order; the worker id is posted "
        "for replacement iff the quota was exhausted. Pool-level cases: see c04_sched. Non-trivial: an injected fault, or quota "
        "reached, or (pool level) a replaced worker present at exit. distinct_nontrivial counts distinct (workload, fault) executions.")
EXPLANATION = "every fault position of every generated workload is executed (fault enumeration); evaluations counts workloads"
ASSUMPTIONS = ["harness queues have queue.Queue semantics for the operations the worker uses (get, put(block=False) -> queue.Full, put)"]
FLOORS = {}
SHARDS = {"quick": 12, "thorough": 14}
CASE_FUEL = None
HYP_SHRINK = True
WALL_GUARD = {"quick": 1500, "thorough": 8 * 3600}


def shard_setup(shard, nshards):
    from . import poolcases
    poolcases.pin_shard(shard, nshards)


def minimize(case, sig):
    if case.get("kind") == "pool":
        from . import c04_sched
        return c04_sched.minimize(case, sig)
    return case


class Boom(Exception):
    pass


class BoomBase(BaseException):
    """not an Exception: what sys.exit(), a KeyboardInterrupt or a closed generator look like to `except Exception`"""


EXC_KINDS = [Boom, BoomBase, SystemExit, KeyboardInterrupt, GeneratorExit]


class Overrun(Exception):
    """the worker asked for more work than the workload holds (it would block forever in a real pool)"""


class FakeContext:
    @staticmethod
    def Event():
        return threading.Event()


class HQ:
    """queue.Queue interface, never blocks: get() on empty raises Overrun; a blocking put on a full queue lets the
    (simulated) consumer take the oldest item first"""

    def __init__(self, maxsize=0):
        self.maxsize = maxsize
        self.items = []
        self.taken = []
        self.blocking_puts = 0

    def get(self, block=True, timeout=None):
        if not self.items:
            raise Overrun()
        return self.items.pop(0)

    def put(self, x, block=True, timeout=None):
        if self.maxsize and len(self.items) >= self.maxsize:
            if not block:
                raise queue.Full()
            self.blocking_puts += 1
            self.taken.append(self.items.pop(0))
        self.items.append(x)

    def qsize(self):
        return len(self.items)

    def all(self):
        return self.taken + self.items


class W(BaseFunctorWorker):
    def __init__(self, quota, fault, exc_class=Boom):
        BaseFunctorWorker.__init__(self, FakeContext(), quota)
        self.log = []
        self.fault = fault
        self.exc_class = exc_class
        self.n = 0
        self.ready_during_begin = False

    def begin(self):
        self.log.append("begin")
        self.ready_during_begin = self.begin_finished.is_set()
        if self.fault == "begin":
            raise self.exc_class()

    def end(self):
        self.log.append("end")
        if self.fault == "end":
            raise self.exc_class()

    def __call__(self, x):
        if self.fault == self.n:
            self.n += 1
            self.log.append("item!")
            raise self.exc_class()
        self.n += 1
        self.log.append("item")
        return x + 100


def run_worker(case, ctx):
    chunks = case["chunks"]
    sentinel = case["sentinel"]
    quota = math.inf if case["quota"] is None else case["quota"]
    rq_max = case["rq_max"]
    total = sum(len(c) for c in chunks)
    reach_quota = quota <= len(chunks)
    seen = ctx.extra.setdefault("fault_keys", [])
    faults = [(None, Boom)] + [(f, k) for f in ["begin", "end"] + list(range(total)) for k in EXC_KINDS]
    for fault, exc_class in faults:
        if not sentinel and not reach_quota and fault in (None, "end"):
            continue  # the worker would legitimately wait for more work
        w = W(quota, fault, exc_class)
        w.wid = 7
        w.work_queue = HQ()
        w.results_queue = HQ(rq_max)
        w.results_queue_lock = threading.Lock()
        w.replace_queue = HQ()
        for i, c in enumerate(chunks):
            w.work_queue.put((i, list(c)))
        if sentinel:
            w.work_queue.put(None)
        exc = None
        tag = "fault=%r (%s) chunks=%r sentinel=%r quota=%r rq_max=%r" % (fault, exc_class.__name__, chunks, sentinel, case["quota"], rq_max)
        try:
            w.run()
        except exc_class as e:
            exc = e
        except Overrun:
            ctx.fail("worker/asks-for-work-beyond-quota-or-stop", "run() asked for another chunk after its quota/stop order: %s log=%r" % (tag, w.log))
            return
        except Exception as e:  # noqa
            ctx.fail("worker/exception-%s" % type(e).__name__, "run() raised %r: %s" % (e, tag))
            return
        # expected behaviour
        done = []
        budget = quota
        seen_items = 0
        expect_exc = fault == "begin"
        if not expect_exc:
            for i, c in enumerate(chunks):
                if budget <= 0:
                    break
                if isinstance(fault, int) and seen_items <= fault < seen_items + len(c):
                    expect_exc = True
                    break
                seen_items += len(c)
                done.append((i, [x + 100 for x in c]))
                budget -= 1
        functor_fault = expect_exc
        if fault == "end":
            expect_exc = True
        log = w.log
        ok_log = (len(log) >= 2 and log[0] == "begin" and log.count("begin") == 1 and log[-1] == "end" and log.count("end") == 1
                  and all(x in ("item", "item!") for x in log[1:-1]))
        if not ok_log:
            ctx.fail("worker/lifecycle-log-wrong", "expected begin, item*, end (each of begin/end exactly once, end last); got %r: %s" % (log, tag))
            return
        if (exc is not None) != expect_exc:
            ctx.fail("worker/exception-propagation", "exception out of run(): %r, expected one: %r: %s" % (exc, expect_exc, tag))
            return
        got = w.results_queue.all()
        if got != done:
            ctx.fail("worker/results-wrong", "results %r, expected the chunks completed before the fault %r: %s" % (got, done, tag))
            return
        if len(done) > quota:
            ctx.fail("worker/quota-exceeded", "processed %d chunks with quota %r" % (len(done), quota))
            return
        posted = w.replace_queue.all()
        exp_posted = [7] if (not functor_fault and reach_quota and fault != "begin") else []
        if posted != exp_posted:
            ctx.fail("worker/replace-request-wrong", "posted %r on the replace queue, expected %r: %s" % (posted, exp_posted, tag))
            return
        if not w.begin_finished.is_set() and fault != "begin":
            ctx.fail("worker/begin_finished-not-set", "begin() completed but begin_finished is not set: %s" % tag)
            return
        if w.ready_during_begin:
            ctx.fail("worker/ready-signalled-before-begin-completed", "begin_finished was set while begin() was still running: %s" % tag)
            return
        seen.append(repr(fault) + exc_class.__name__)
        if fault is not None:
            ctx.label("fault")
            if exc_class is not Boom:
                ctx.label("fault-not-an-Exception")
        if reach_quota and not functor_fault:
            ctx.label("quota-reached")
        if w.results_queue.blocking_puts:
            ctx.label("results-queue-full-fallback")
    ctx.label("worker")
    if seen:
        ctx.nontrivial = True
    ctx.extra["fault_runs"] = len(seen)


def run_real(case, ctx):
    """reality tier (E4): real worker processes; lifecycle facts observed through multiprocessing Events"""
    from .. import reality
    from ..common import Inconclusive
    name = "FactoryFunctorPool" if case["pool"] == "factory" else "FunctorPool"
    r = reality.run_real(case)
    ctx.label("real-processes")
    ctx.nontrivial = True
    if r["verdict"] != "ok" or r.get("exc"):
        # a hang or a wrong value is C02/C03's verdict; here only lifecycles of runs that left the pool are judged
        if r["verdict"] == "inconclusive":
            raise Inconclusive("real run inconclusive")
        return
    if r.get("not_ready_after_until_all_ready"):
        ctx.fail("%s/real-processes/until_all_ready-returned-before-begin-completed" % name, "%d workers had not completed begin()" % r["not_ready_after_until_all_ready"])
    if r.get("alive_after_exit"):
        ctx.fail("%s/real-processes/worker-still-running-when-pool-context-left" % name,
                 "%d of %d worker processes were still alive when the with-block had been left" % (r["alive_after_exit"], r.get("workers_created", 0)))
    if r.get("end_not_done_after_exit"):
        ctx.fail("%s/real-processes/end-not-completed-when-pool-context-left" % name,
                 "%d started workers had not completed end() when the with-block had been left" % r["end_not_done_after_exit"])


def run_case(case, ctx):
    if case.get("real"):
        run_real(case, ctx)
    elif case["kind"] == "worker":
        run_worker(case, ctx)
    else:
        from . import c04_sched
        c04_sched.run_case(case, ctx)


def strategies(tier):
    big = tier == "thorough"
    worker = st.fixed_dictionaries({
        "kind": st.just("worker"),
        "chunks": st.lists(st.lists(st.integers(0, 9), max_size=4), max_size=6),
        "sentinel": st.booleans(),
        "quota": st.sampled_from([1, 2, 3, 4, None, None, 0]),
        "rq_max": st.sampled_from([0, 0, 1, 2]),
    })
    parts = [("worker-level-fault-enumeration", worker, 300000 if big else 6000)]
    from . import poolcases as PC
    realq = PC.real_strategy(PC.pool_strategy(kinds=("factory",), quotas=(1, 2, 3), max_calls=3, min_calls=1, max_n=8))
    parts.append(("real-processes-lifecycle", realq, 300 if big else 14, {"shrink": False}))
    try:
        from . import c04_sched
        parts += c04_sched.strategies(tier)
    except ImportError:
        pass
    return parts


def enumerations(tier):
    try:
        from . import c04_sched
        return c04_sched.enumerations(tier)
    except ImportError:
        return []
