"""Shared generators/helpers for the line-file properties (C11, C12, C13, C18)."""
import os
import tempfile
from dataclasses import dataclass

from hypothesis import strategies as st

from windpyutils import files as F

# atoms rich in corner cases; a line is a short concatenation of atoms
ATOMS_CR = ["", "a", " ", "\t", "\r", "é", "€", "𝄞", "b ", "\r\r", "0", " ", "\x85", "xy", " \r", "\x0c"]
ATOMS_NOCR = [a for a in ATOMS_CR if "\r" not in a]
LONG = {"L9": ("x", 9000), "L70": ("yz€", 23400)}  # longer than io.DEFAULT_BUFFER_SIZE (8 KiB) and than 64 KiB


def expand(tok):
    """a line token is a str, or ["L9"|"L70"|"B:<bytes>", prefix] for a line longer than the I/O buffer / of an exact byte length"""
    if isinstance(tok, str):
        return tok
    if tok[0].startswith("B:"):
        # a line of exactly that many bytes (without its terminator): with the "\n" it ends exactly at / one before / one after a
        # multiple of io.DEFAULT_BUFFER_SIZE (8192) - the sizes at which chunked reads of a line split
        return tok[1] + "x" * (int(tok[0][2:]) - len(tok[1].encode("utf-8")))
    unit, n = LONG[tok[0]]
    return tok[1] + unit * n


def line_strategy(with_cr=True, with_long=True):
    atoms = ATOMS_CR if with_cr else ATOMS_NOCR
    base = st.lists(st.sampled_from(atoms), max_size=4).map("".join)
    if not with_long:
        return base
    long_ = st.tuples(st.sampled_from(["L9", "L70", "B:8191", "B:8190", "B:8192", "B:16383", "B:65535", "B:4095", "B:8191"]),
                      st.sampled_from(["", "a", "é"])).map(list)
    return st.tuples(st.integers(0, 35), base, long_).map(lambda t: t[2] if t[0] == 17 else t[1])


def content_of(lines, final_nl):
    ls = [expand(t) for t in lines]
    content = "\n".join(ls) + ("\n" if final_nl and ls else "")
    return content


def reference_lines(content):
    ref = content.split("\n")
    if content == "" or content.endswith("\n"):
        ref.pop()
    return ref


def offsets_of(ref):
    offs = []
    o = 0
    for l in ref:
        offs.append(o)
        o += len(l.encode("utf-8")) + 1
    return offs


@dataclass
class TextRecord(F.Record):
    """pass-through record: the record of a line is the line"""
    t: str

    @classmethod
    def load(cls, s):
        return cls(s)

    def save(self):
        return self.t


VARIANTS = {
    "RandomLineAccessFile": (F.RandomLineAccessFile, False, False),
    "MemoryMappedRandomLineAccessFile": (F.MemoryMappedRandomLineAccessFile, True, False),
    "MutableRandomLineAccessFile": (F.MutableRandomLineAccessFile, False, False),
    "MutableMemoryMappedRandomLineAccessFile": (F.MutableMemoryMappedRandomLineAccessFile, True, False),
    "RecordFile": (F.RecordFile, False, True),
    "MemoryMappedRecordFile": (F.MemoryMappedRecordFile, True, True),
    "MutableRecordFile": (F.MutableRecordFile, False, True),
    "MutableMemoryMappedRecordFile": (F.MutableMemoryMappedRecordFile, True, True),
}


class Scratch:
    """per-case scratch directory below the run's scratch area; removed when the case ends"""

    def __enter__(self):
        self.d = tempfile.mkdtemp(prefix="case-", dir=os.environ.get("VF_SCRATCH") or None)
        return self

    def path(self, name):
        return os.path.join(self.d, name)

    def write(self, name, data):
        p = self.path(name)
        with open(p, "wb") as f:
            f.write(data)
        return p

    def __exit__(self, *a):
        import shutil
        shutil.rmtree(self.d, ignore_errors=True)
        return False
