"""Shared interpreter for C06 (LRUCache) and C07 (LFUCache): candidate-set reference model (DESIGN.md §2.4).

The content (key -> value) is deterministic. What the statements leave open is kept as a *set of admissible
models*: whether a membership test counts as a use (fixed per history), and what a view operation
(values/items/==) does to recency / use counts. A violation is reported only when no admissible model is left.
"""
import itertools

from hypothesis import strategies as st

from windpyutils.structures.caches import LRUCache, LFUCache

from ..common import FuelSession, OutOfFuel, take

FUEL = 40000


class _Stop(Exception):
    pass


def same_keys(a, b):
    """equal as collections of dictionary keys (1, 1.0 and True are one key, whatever spelling is listed), each once"""
    a, b = list(a), list(b)
    return len(a) == len(b) and len(set(a)) == len(a) and set(a) == set(b)


def same_multiset(a, b):
    a, b = list(a), list(b)
    if len(a) != len(b):
        return False
    b = list(b)
    for x in a:
        if x in b:
            b.remove(x)
        else:
            return False
    return True


EQMIX = [0, 1, 1.0, True, 2, 2.0, False, 0.0, 3]   # several spellings of equal keys (1 == 1.0 == True): one entry, as for dict


def mk_key(i, keytype):
    if keytype == "eqmix":
        return EQMIX[i % len(EQMIX)]
    if keytype == "int":
        return i
    if keytype == "str":
        return "k%d" % i
    return (i, "t")


def mk_val(v):
    """values: small ints (0 is falsy) with None and the empty string among the frequent ones"""
    return None if v == 3 else "" if v == 2 else v


def drive(ctx, kind, cap, ops, keytype="int", sparse=False):
    with FuelSession(FUEL) as fs:
        _drive(ctx, fs, kind, cap, ops, keytype, sparse)


def _drive(ctx, fs, kind, cap, ops, keytype, sparse=False):
    lru = kind == "lru"
    if sparse:
        ctx.label("observed-only-through-its-own-operations")
    name = "LRUCache" if lru else "LFUCache"
    c = (LRUCache if lru else LFUCache)(cap)
    d = {}
    empty = () if lru else frozenset()
    # what the statement leaves open is fixed per history (an implementation is consistent with itself):
    # p = (membership counts as a use, values()/items() count as a lookup of every key, == counts as a lookup of every key)
    if lru:
        cands = {((a, False, False), empty) for a in (True, False)}
    else:
        cands = {((a, b, e), empty) for a in (True, False) for b in (True, False) for e in (True, False)}
    st_ = {"reordered": False, "restored": set(), "evictions": 0}

    def run(op, fn):
        fs.reset()
        try:
            return fn()
        except OutOfFuel:
            ctx.fail("%s/%s/non-terminating" % (name, op), "%s does not terminate (cap=%d, %d entries)" % (op, cap, len(d)))
            raise _Stop()
        except (KeyError, _Stop):
            raise
        except Exception as e:  # noqa
            ctx.fail("%s/%s/exception-%s" % (name, op, type(e).__name__), "%s raised %r" % (op, e))
            raise _Stop()

    def keys_now(op):
        ks = run(op + "+iter", lambda: take(c, cap + 3))
        return ks

    def touch(meta, k):
        if lru:
            return (k,) + tuple(x for x in meta if x != k)
        m = dict(meta)
        m[k] += 1
        return frozenset(m.items())

    def insert(meta, k):
        if lru:
            return (k,) + meta
        return meta | {(k, 1)}

    def drop(meta, k):
        if lru:
            return tuple(x for x in meta if x != k)
        return frozenset((a, b) for a, b in meta if a != k)

    def note_touch(k):
        if lru:
            for _, m in cands:
                if m and m[0] != k:
                    st_["reordered"] = True
                break

    def store(op, k, v, via_setdefault=False):
        nonlocal cands

        def do_store():
            if not via_setdefault:
                return c.__setitem__(k, v)
            r = c.setdefault(k, v)   # a miss: by dict semantics an unsuccessful lookup and one store (use count 1)
            ctx.need(r is v or r == v, "%s/setdefault/wrong-return" % name, lambda: "setdefault(absent %r, %r) returned %r" % (k, v, r))

        if k in d:
            note_touch(k)
            run(op, lambda: c.__setitem__(k, v))
            d[k] = v
            cands = {(p, touch(m, k)) for p, m in cands}
            st_["restored"].add(k)
            ctx.label("re-store")
            return
        before = set(d)
        run(op, do_store)
        if len(d) >= cap:
            now = set(keys_now(op))
            gone = before - now
            if not ctx.need(len(gone) == 1 and now == (before - gone) | {k},
                            "%s/%s/evicts-not-exactly-one" % (name, op),
                            lambda: "storing new key %r into a full cache (cap %d): keys before %r, after %r" % (k, cap, sorted(before, key=repr), sorted(now, key=repr))):
                raise _Stop()
            g = next(iter(gone))
            new = set()
            decided_by_counts = False
            for p, m in cands:
                if lru:
                    if m[-1] == g:
                        new.add((p, insert(drop(m, g), k)))
                else:
                    cnts = dict(m)
                    if cnts[g] == min(cnts.values()):
                        new.add((p, insert(drop(m, g), k)))
                        if len(set(cnts.values())) > 1:
                            decided_by_counts = True
            if not new:
                ctx.fail("%s/%s/evicts-wrong-key" % (name, op),
                         "evicted key %r is not a least-%s-used key in any admissible model %s"
                         % (g, "recently" if lru else "frequently", sorted(cands, key=repr)[:4]))
                raise _Stop()
            cands = new
            del d[g]
            st_["evictions"] += 1
            ctx.label("eviction")
            if lru and st_["reordered"]:
                ctx.label("eviction-after-reorder")
                ctx.nontrivial = True
            if not lru and decided_by_counts:
                ctx.label("count-decided-eviction")
                ctx.nontrivial = True
        else:
            cands = {(p, insert(m, k)) for p, m in cands}
        d[k] = v

    def lookup_hit(k):
        nonlocal cands
        note_touch(k)
        cands = {(p, touch(m, k)) for p, m in cands}
        if k in st_["restored"]:
            ctx.label("re-store-then-lookup")
            if not lru:
                ctx.nontrivial = True

    try:
        for o in ops:
            op = o[0]
            k = mk_key(o[1], keytype) if len(o) > 1 and isinstance(o[1], int) else None
            if op == "set":
                store("store", k, mk_val(o[2]))
            elif op in ("get", "getd", "setdefault"):
                if k in d:
                    r = run(op, lambda: c[k] if op == "get" else c.get(k, "D") if op == "getd" else c.setdefault(k, mk_val(o[2])))
                    ctx.need(r == d[k], "%s/%s/stale-or-wrong-value" % (name, op),
                             lambda: "lookup of %r returned %r, the value most recently stored is %r" % (k, r, d[k]))
                    lookup_hit(k)
                    ctx.label("hit")
                elif op == "get":
                    try:
                        run(op, lambda: c[k])
                        ctx.fail("%s/get/no-KeyError" % name, "lookup of absent key %r did not raise KeyError" % (k,))
                    except KeyError:
                        pass
                elif op == "getd":
                    r = run(op, lambda: c.get(k, "D"))
                    ctx.need(r == "D", "%s/get/default" % name, "get(absent, default) returned %r" % (r,))
                else:
                    store("setdefault", k, mk_val(o[2]), via_setdefault=True)
            elif op == "burst":
                # n successful lookups of one key in a row: use counts far beyond what a 40-step history reaches otherwise
                # (a counter that saturates or wraps at some width was seeded in round 16; nothing bounds the count)
                if k in d:
                    for _ in range(o[2]):
                        r = run("get", lambda: c[k])
                        if not ctx.need(r == d[k], "%s/get/stale-or-wrong-value" % name,
                                        lambda: "lookup of %r returned %r, the value most recently stored is %r" % (k, r, d[k])):
                            raise _Stop()
                    note_touch(k)
                    if lru:
                        cands = {(p, touch(m, k)) for p, m in cands}
                    else:
                        cands = {(p, frozenset((a, b + o[2] if a == k else b) for a, b in m)) for p, m in cands}
                    ctx.label("burst-hit")
                    if o[2] >= 255:
                        ctx.label("burst>=255")
            elif op == "del":
                if k in d:
                    run(op, lambda: c.__delitem__(k))
                    del d[k]
                    st_["restored"].discard(k)
                    cands = {(p, drop(m, k)) for p, m in cands}
                else:
                    try:
                        run(op, lambda: c.__delitem__(k))
                        ctx.fail("%s/del/no-KeyError" % name, "delete of absent key did not raise KeyError")
                    except KeyError:
                        pass
            elif op == "in":
                r = run(op, lambda: k in c)
                ctx.need(r == (k in d), "%s/in/wrong" % name, lambda: "%r in cache = %r, content %r" % (k, r, d))
                if k in d:
                    cands = {(p, touch(m, k) if p[0] else m) for p, m in cands}
            elif op in ("values", "items", "eq", "keys", "len"):
                n = len(d)
                if op == "keys":
                    got = run("keys()", lambda: take(c.keys(), n + 2))
                    ctx.need(same_keys(got, d), "%s/keys()/disagrees" % name,
                             lambda: "keys() %r vs content %r" % (got, d))
                elif op == "len":
                    pass
                elif op == "values":
                    got = run("values()", lambda: take(c.values(), n + 2))
                    ctx.need(len(got) <= n or n == 0, "%s/values()/non-terminating" % name,
                             lambda: "values() yields more than len()=%d items: %r..." % (n, got[:6]))
                    ctx.need(same_multiset(got, d.values()), "%s/values()/disagrees" % name,
                             lambda: "values() %r does not agree with content %r" % (got, d))
                elif op == "items":
                    got = run("items()", lambda: take(c.items(), n + 2))
                    ctx.need(len(got) <= n or n == 0, "%s/items()/non-terminating" % name,
                             lambda: "items() yields more than len()=%d items: %r..." % (n, got[:6]))
                    ctx.need(same_multiset(got, d.items()), "%s/items()/disagrees" % name,
                             lambda: "items() %r does not agree with content %r" % (got, d))
                else:
                    r = run("==", lambda: c == dict(d))
                    ctx.need(r is True, "%s/==/unequal-to-own-content" % name, lambda: "cache == dict(content) is %r, content %r" % (r, d))
                    if not d:
                        rn = run("!=", lambda: c != {"x": 1})
                        ctx.need(rn is True, "%s/!=/wrong" % name, "empty cache != non-empty dict is %r" % (rn,))
                    if d:
                        other = dict(d)
                        other[next(iter(other))] = "other"
                        r2 = run("==", lambda: c == other)
                        ctx.need(r2 is False, "%s/==/equal-to-different-dict" % name, "cache == dict with a different value")
                        twin = type(c)(max(cap, len(d)))
                        for kk, vv in d.items():
                            twin[kk] = vv
                        r3 = run("==", lambda: c == twin)
                        ctx.need(r3 is True, "%s/==/unequal-to-cache-with-same-content" % name, lambda: "cache == other cache with the same items is %r" % (r3,))
                        # a mapping of the same size in which one key is replaced by another one (same value) is a different
                        # mapping - also when the value is None; asked of the twin, so that the use counts of `c` stay as modelled
                        victim = next((kk for kk, vv in d.items() if vv is None), next(iter(d)))
                        swapped = {("foreign", "key") if kk is victim else kk: vv for kk, vv in d.items()}
                        swapped.setdefault(("foreign", "key"), d[victim])
                        if len(swapped) == len(d):
                            r4 = run("==", lambda: (twin == swapped, swapped == twin, twin != swapped))
                            ctx.need(r4 == (False, False, True), "%s/==/equal-to-dict-with-another-key" % name,
                                     lambda: "content %r vs %r: (==, reflected ==, !=) = %r" % (d, swapped, r4))
                if op in ("values", "items", "eq"):
                    if n >= 2:
                        ctx.label("view-op>=2")
                        if lru:
                            ctx.nontrivial = True
                        elif any(len({b for _, b in m}) < len(m) for _, m in cands):
                            ctx.label("view-op-tied-counts")
                            ctx.nontrivial = True
                    if lru:  # any order is admissible afterwards: re-synchronise from the implementation
                        now = tuple(keys_now(op))
                        if not ctx.need(same_keys(now, d), "%s/%s/changed-key-set" % (name, op),
                                        lambda: "view operation changed the key set: %r vs %r" % (now, d)):
                            raise _Stop()
                        cands = {(p, now) for p, _ in cands}
                    else:
                        # LFU: a view either counts as one lookup of every present key or it does not (fixed per history);
                        # `==` was evaluated against 3 objects when the cache is non-empty (1 otherwise)
                        reps = (3 if d else 1) if op == "eq" else 1
                        flag = 2 if op == "eq" else 1
                        cands = {(p, frozenset((a, b + reps) for a, b in m) if p[flag] else m) for p, m in cands}
            elif op == "pop":
                if k in d:
                    r = run(op, lambda: c.pop(k))
                    ctx.need(r == d[k], "%s/pop/wrong-value" % name, lambda: "pop(%r) returned %r expected %r" % (k, r, d[k]))
                    del d[k]
                    st_["restored"].discard(k)
                    cands = {(p, drop(m, k)) for p, m in cands}
                else:
                    r = run(op, lambda: c.pop(k, "D"))
                    ctx.need(r == "D", "%s/pop/default" % name, "pop(absent, default) returned %r" % (r,))
                    try:
                        rn = run(op, lambda: c.pop(k, None))     # None is a default like any other
                        ctx.need(rn is None, "%s/pop/default" % name, "pop(absent, None) returned %r" % (rn,))
                    except KeyError:
                        ctx.fail("%s/pop/none-default-raises" % name, "pop(absent key, None) raised KeyError; a given default is returned, also when it is None")
                    rg = run(op, lambda: c.get(k))
                    ctx.need(rg is None, "%s/get/default" % name, "get(absent) returned %r" % (rg,))
            elif op == "popitem":
                if d:
                    kk, vv = run(op, lambda: c.popitem())
                    if not ctx.need(kk in d and d[kk] == vv, "%s/popitem/not-an-item" % name,
                                    lambda: "popitem returned %r which is not an item of %r" % ((kk, vv), d)):
                        raise _Stop()
                    del d[kk]
                    st_["restored"].discard(kk)
                    cands = {(p, drop(m, kk)) for p, m in cands}
                else:
                    try:
                        run(op, lambda: c.popitem())
                        ctx.fail("%s/popitem/no-KeyError" % name, "popitem on an empty cache did not raise KeyError")
                    except KeyError:
                        pass
            elif op == "clear":
                run(op, lambda: c.clear())
                d.clear()
                st_["restored"].clear()
                cands = {(p, empty) for p, _ in cands}
            elif op == "update":
                pairs = [(mk_key(a, keytype), mk_val(b)) for a, b in o[1]]
                upd = dict(pairs)
                # MutableMapping.update stores one by one in the order of the argument
                # (run through the real update once: content is checked below, the model applies the same stores)
                if lru and len(set(d) | set(upd)) > cap:
                    # an update that overflows the cache: MutableMapping.update stores the items one by one in the order given,
                    # and after every step all admissible LRU models agree on the recency order (it is observed), so the
                    # outcome is determined: simulate the stores on (order, content) and compare with the real update()
                    as_dict = bool(len(pairs) % 2)
                    arg = dict(pairs) if as_dict else list(pairs)
                    seq = list(arg.items()) if as_dict else list(arg)
                    if sparse:
                        # not observed after every step: the admissible models may still differ in their order; observe now
                        ks0 = list(keys_now("update"))
                        keep0 = {(p, m) for p, m in cands if list(m) == ks0}
                        if not keep0:
                            ctx.fail("%s/update/iteration-order-inadmissible" % name,
                                     "iteration order %r before %r is not most-to-least recently used for any admissible model %s" % (ks0, o, sorted(cands, key=repr)[:4]))
                            raise _Stop()
                        cands = keep0
                    order = list(next(iter(cands))[1])
                    content = dict(d)
                    for kk, vv in seq:
                        if kk in content:
                            order.remove(kk)
                        elif len(content) >= cap:
                            victim = order.pop()
                            del content[victim]
                        content[kk] = vv
                        order.insert(0, kk)
                    run("update", lambda: c.update(arg))
                    ks_ = keys_now("update")
                    if not ctx.need(ks_ == order, "%s/update/differs-from-the-same-stores-one-by-one" % name,
                                    lambda: "update(%r) on a cache of capacity %d holding %r left keys %r; storing the items one by one gives %r"
                                    % (arg, cap, list(d), ks_, order)):
                        raise _Stop()
                    d.clear()
                    d.update(content)
                    cands = {(p, tuple(order)) for p, _ in cands}
                    st_["reordered"] = True
                    ctx.label("update-with-overflow")
                    ctx.label("eviction")
                elif (not lru) and len(set(d) | set(upd)) > cap:
                    # LFU, overflowing update: victims may be ambiguous (ties), so all outcomes of storing the items one by one are
                    # enumerated per admissible count model, and the real update() must land in one of them
                    as_dict = bool(len(pairs) % 2)
                    arg = dict(pairs) if as_dict else list(pairs)
                    seq = list(arg.items()) if as_dict else list(arg)
                    states = {(p, m) for p, m in cands}
                    for kk, vv in seq:
                        nxt = set()
                        for p, m in states:
                            cnt = dict(m)
                            if kk in cnt:
                                cnt[kk] += 1
                                nxt.add((p, frozenset(cnt.items())))
                            elif len(cnt) >= cap:
                                lo = min(cnt.values())
                                for victim in [a for a, b in cnt.items() if b == lo]:
                                    c2 = dict(cnt)
                                    del c2[victim]
                                    c2[kk] = 1
                                    nxt.add((p, frozenset(c2.items())))
                            else:
                                cnt[kk] = 1
                                nxt.add((p, frozenset(cnt.items())))
                        states = nxt
                        if len(states) > 20000:
                            from ..common import Inconclusive
                            raise Inconclusive("more than 20000 admissible outcomes of an overflowing update")
                    run("update", lambda: c.update(arg))
                    ks_ = keys_now("update")
                    keep = {(p, m) for p, m in states if {a for a, _ in m} == set(ks_)}
                    if not ctx.need(bool(keep), "%s/update/differs-from-the-same-stores-one-by-one" % name,
                                    lambda: "update(%r) on a cache of capacity %d holding %r left keys %r; no sequence of least-frequently-used evictions "
                                    "for the same stores one by one ends with that key set" % (arg, cap, list(d), ks_)):
                        raise _Stop()
                    newd = {}
                    last = dict(seq)
                    for kk in ks_:
                        newd[kk] = last[kk] if kk in last else d[kk]
                    d.clear()
                    d.update(newd)
                    cands = keep
                    for kk, _ in seq:
                        st_["restored"].add(kk)
                    ctx.label("update-with-overflow")
                    ctx.label("eviction")
                elif len(set(d) | set(upd)) <= cap:
                    run("update", lambda: c.update(pairs))
                    for kk, vv in pairs:
                        if kk in d:
                            note_touch(kk)
                            cands = {(p, touch(m, kk)) for p, m in cands}
                            st_["restored"].add(kk)
                        else:
                            cands = {(p, insert(m, kk)) for p, m in cands}
                        d[kk] = vv
                    ctx.label("real-update")
                else:
                    for kk, vv in upd.items():
                        store("update", kk, vv)
            else:
                raise AssertionError(op)
            # observation after every step - except in "sparse" histories (a quarter of the drawn ones), which are observed only
            # through their own operations and at evictions, and in full after the last step: iterating after every step would
            # refresh read-side state (a remembered most-recently-used node, round 17) before a single lookup can go wrong
            if sparse and o is not ops[-1]:
                ln = run("len", lambda: len(c))
                if not ctx.need(ln == len(d), "%s/%s/len-wrong" % (name, op), lambda: "len()=%d, content has %d" % (ln, len(d))):
                    raise _Stop()
                continue
            ks = keys_now(op)
            ln = run("len", lambda: len(c))
            if not ctx.need(ln == len(d), "%s/%s/len-wrong" % (name, op), lambda: "len()=%d, content has %d" % (ln, len(d))):
                raise _Stop()
            if not ctx.need(len(d) <= cap, "%s/%s/exceeds-max_size" % (name, op), lambda: "%d entries with max_size %d" % (len(d), cap)):
                raise _Stop()
            if not ctx.need(same_keys(ks, d), "%s/%s/keys-differ" % (name, op),
                            lambda: "iteration gives keys %r, content is %r after %r" % (ks, d, o)):
                raise _Stop()
            if lru:
                new = {(p, m) for p, m in cands if list(m) == ks}
            else:
                new = set()
                for p, m in cands:
                    dm = dict(m)
                    cs = [dm[x] for x in ks]
                    if cs == sorted(cs):
                        new.add((p, m))
            if not new:
                ctx.fail("%s/%s/iteration-order-inadmissible" % (name, op),
                         "iteration order %r after %r is not %s for any admissible model %s"
                         % (ks, o, "most-to-least recently used" if lru else "non-decreasing in use count", sorted(cands, key=repr)[:4]))
                raise _Stop()
            cands = new
            if len(cands) > 20000:
                # never truncate the set of admissible models (that would turn a harness limit into a false alarm)
                from ..common import Inconclusive
                raise Inconclusive("more than 20000 admissible models")
            # optional internal agreement (only if the attributes exist)
            if hasattr(c, "cache") and hasattr(c, "list") and isinstance(getattr(c, "cache"), dict):
                try:
                    inner = [x[0] if lru else x.key for x in take(c.list, cap + 3)]
                    ctx.need(same_keys(inner, c.cache), "%s/%s/dict-list-disagree" % (name, op),
                             "internal dict and list disagree")
                except (TypeError, AttributeError, IndexError):
                    pass
    except _Stop:
        return


# ------------------------------------------------------------------------------------------ generators

OPS = ["set", "get", "set", "get", "del", "in", "keys", "values", "items", "eq", "getd", "pop", "popitem", "clear", "update",
       "setdefault", "set", "get", "get", "values"]


def decode(code, restore_heavy):
    """one integer -> one operation (op, key index, value ...); code 0 is the simplest operation (store key 0)"""
    op = OPS[code % len(OPS)]
    x = code // len(OPS)
    nkeys = 4 if restore_heavy else 9
    k = x % nkeys
    x //= nkeys
    v = x % 100
    x //= 100
    if x % 2 == 0:
        v = v % 4       # a small value pool: re-stores of the very same value object are common (identity-based shortcuts)
    x //= 2
    if op in ("set", "setdefault"):
        return [op, k, v]
    if op in ("get", "del", "in", "getd", "pop"):
        return [op, k]
    if op == "update":
        n = x % 7
        x //= 7
        pairs = []
        for i in range(n):
            pairs.append([(k + (x % 5) * i + i) % (5 if i % 2 else 9), (v + i) % 100])
        return [op, pairs]
    return [op]


BURSTS = [3, 17, 64, 127, 128, 254, 255, 256, 257, 300, 511, 512, 1024, 1025]


def case_strategy(kind, restore_heavy=False):
    hist = st.one_of(common_codes(0, 12), common_codes(14, 40)).map(lambda cs: [decode(c, restore_heavy) for c in cs])
    # a sixth of the histories: the same, with runs of lookups of one key spliced in (at most three per history)
    burst = st.tuples(st.integers(0, 3), st.sampled_from(BURSTS), st.integers(0, 40))
    bursty = st.tuples(common_codes(2, 24).map(lambda cs: [decode(c, True) for c in cs]), st.lists(burst, min_size=1, max_size=3)).map(
        lambda t: _splice(t[0], t[1]))
    return st.fixed_dictionaries({
        "kind": st.just(kind), "cap": st.integers(1, 6), "keytype": st.sampled_from(["int", "int", "str", "tuple", "eqmix"]),
        "observe": st.sampled_from(["each", "each", "each", "sparse"]),
        "ops": st.one_of(hist, hist, hist, hist, hist.map(list), bursty)})


def _splice(ops, bursts):
    ops = list(ops)
    for k, n, at in bursts:
        ops.insert(at % (len(ops) + 1), ["burst", k, n])
    return ops


def common_codes(a, b):
    from ..common import codes
    return codes(a, b)


def enum_small(kind, tier):
    """all histories of length<=3 (quick) / 4 (thorough) over store/lookup/delete/membership x 3 keys + values/items/==
    for capacity 1..2, and of length 4 / 5 over store/lookup/delete."""
    def gen():
        a1 = []
        for k in range(3):
            a1 += [["set", k], ["get", k], ["del", k], ["in", k]]
        a1 += [["values"], ["items"], ["eq"]]
        a2 = [x for x in a1 if x[0] in ("set", "get", "del")]
        big = tier == "thorough"
        for cap in (1, 2):
            for ln in range(0, 5 if big else 4):
                for ops in itertools.product(a1, repeat=ln):
                    yield {"kind": kind, "cap": cap, "keytype": "int",
                           "ops": [(o + [10 + i]) if o[0] == "set" else list(o) for i, o in enumerate(ops)]}
            for ops in itertools.product(a2, repeat=5 if big else 4):
                yield {"kind": kind, "cap": cap, "keytype": "int",
                       "ops": [(o + [10 + i]) if o[0] == "set" else list(o) for i, o in enumerate(ops)]}
    return gen
