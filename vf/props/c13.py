"""C13 — records survive save/load and record files are sequences of records (E1)."""
import json
from dataclasses import dataclass
from typing import Any

from hypothesis import strategies as st

from windpyutils import files as F

from . import filegen as FG
from ..common import codes, Violation

ID = "C13"
LEVEL = "exploration"
RULE = ("Cases: 'roundtrip': a sequence of 1..12 records of alternating classes (class-level writer/buffer/caches reset at the start of each case) (JsonRecord with recursive JSON values incl. any text "
        "with line breaks/quotes/backslashes/non-BMP, ints up to +-10^40, finite floats, bools, None, lists, dicts; CSVRecord/TSVRecord "
        "with (int,float,str), (str,), (str,str,int) layouts and strings without line breaks but with delimiters, tabs, quotes, "
        "leading/trailing blanks, empty string, NUL, U+2028); oracle load(save(r))==r and save(r) minus one trailing line terminator "
        "contains no line break. 'file': the save() lines written to a file and read through RecordFile / MemoryMappedRecordFile by "
        "index, slice and iteration; then a C12-style edit history with records on the mutable record variants, save, reopen through "
        "both read-only variants == model. Non-trivial: a string field containing a delimiter, quote, blank at either end or non-ASCII; "
        "or >=2 different record classes used alternately; or an edit history with both file-backed and in-memory records at save. "
        "Distinct = distinct case JSON.")
EXPLANATION = ""
ASSUMPTIONS = ["floats are finite; CSV/TSV string fields contain no '\\n'/'\\r' (the statement's domain)", "PYTHONUTF8=1"]
FLOORS = {"special-char-field": (0.4, "roundtrip"), "alternating-classes": (0.2, "roundtrip")}
SHARDS = {"quick": 12, "thorough": 14}


@dataclass
class J2(F.JsonRecord):
    a: Any
    b: Any


@dataclass
class J1(F.JsonRecord):
    x: Any


@dataclass
class J3(F.JsonRecord):
    name: Any
    val: Any
    extra: Any


@dataclass
class C3(F.CSVRecord):
    i: int
    f: float
    s: str


@dataclass
class C1(F.CSVRecord):
    s: str


@dataclass
class C2i(F.CSVRecord):
    s: str
    t: str
    n: int


@dataclass
class T2(F.TSVRecord):
    s: str
    t: str


@dataclass
class T3(F.TSVRecord):
    i: int
    f: float
    s: str


@dataclass
class J2x(J2):
    """a record class derived from another record class, adding fields (with and without defaults)"""
    c: Any = None
    d: Any = "dflt"


@dataclass
class C3x(C3):
    t: str = ""


@dataclass
class T2x(T2):
    n: int = 0


CLASSES = {"J1": J1, "J2": J2, "J3": J3, "C3": C3, "C1": C1, "C2i": C2i, "T2": T2, "T3": T3, "J2x": J2x, "C3x": C3x, "T2x": T2x}
LAYOUT = {"J1": "j", "J2": "jj", "J3": "jjj", "C3": "ifs", "C1": "s", "C2i": "ssi", "T2": "ss", "T3": "ifs", "J2x": "jjjj", "C3x": "ifss", "T2x": "ssi"}


def mk(spec):
    cls = CLASSES[spec[0]]
    return cls(*spec[1])


def is_special(s):
    return isinstance(s, str) and (any(ch in s for ch in ",\t\"'\\;") or s != s.strip() or any(ord(ch) > 127 for ch in s) or s == "" or "\x00" in s)


def single_line(s):
    for t in ("\r\n", "\n", "\r"):
        if s.endswith(t):
            s = s[:-len(t)]
            break
    return "\n" not in s and "\r" not in s


def strip_term(s):
    for t in ("\r\n", "\n", "\r"):
        if s.endswith(t):
            return s[:-len(t)]
    return s


def run_roundtrip(case, ctx):
    ctx.label("roundtrip")
    specs = case["records"]
    classes = [s[0] for s in specs]
    for spec in specs:
        r = mk(spec)
        cn = type(r).__name__
        base = "JsonRecord" if spec[0].startswith("J") else "TSVRecord" if spec[0].startswith("T") else "CSVRecord"
        try:
            s = r.save()
        except Exception as e:  # noqa
            ctx.fail("%s/save/exception-%s" % (base, type(e).__name__), "%s.save() raised %r for %r" % (cn, e, r))
            return
        if not ctx.need(isinstance(s, str) and single_line(s), "%s/save/not-a-single-line" % base,
                        lambda: "save() of %r is %r" % (r, s)):
            return
        try:
            back = type(r).load(s)
        except Exception as e:  # noqa
            ctx.fail("%s/load/exception-%s" % (base, type(e).__name__), "load(%r) raised %r (record %r)" % (s, e, r))
            return
        ctx.need(back == r and type(back) is type(r), "%s/roundtrip/differs" % base, lambda: "load(save(r))=%r, r=%r, line %r" % (back, r, s))
        # loading the line as a record file would deliver it (terminator stripped) must give the same record
        try:
            back2 = type(r).load(strip_term(s))
        except Exception as e:  # noqa
            ctx.fail("%s/load/exception-%s" % (base, type(e).__name__), "load(%r) raised %r" % (strip_term(s), e))
            return
        ctx.need(back2 == r, "%s/roundtrip-stripped/differs" % base, lambda: "load(line without terminator)=%r, r=%r" % (back2, r))
        if any(is_special(v) for v in spec[1]) or (spec[0].startswith("J") and any(is_special(x) for x in flat(spec[1]))):
            ctx.label("special-char-field")
            ctx.nontrivial = True
    if any(a + "x" == b or b + "x" == a for a in classes for b in classes):
        ctx.label("base-and-derived-record-class")
    if len(set(classes)) >= 2 and any(a != b for a, b in zip(classes, classes[1:])):
        ctx.label("alternating-classes")
        ctx.nontrivial = True


def flat(v):
    if isinstance(v, (list, tuple)):
        for x in v:
            yield from flat(x)
    elif isinstance(v, dict):
        for k, x in v.items():
            yield k
            yield from flat(x)
    else:
        yield v


def run_file(case, ctx):
    ctx.label("file")
    cname = case["cls"]
    cls = CLASSES[cname]
    recs = [cls(*vals) for vals in case["records"]]
    extra = [cls(*vals) for vals in case["extra"]] or recs[:1]
    lines = [strip_term(r.save()) for r in recs]
    if any(not single_line(l) for l in lines):
        return  # reported by the roundtrip part
    raw = "".join(l + "\n" for l in lines).encode("utf-8", "surrogatepass")
    if lines and not case.get("final_nl", True):
        raw = raw[:-1]      # a record file written by another tool: the last line has no terminator
        ctx.label("unterminated-last-record")

    def fail(what, msg):
        ctx.fail("record-file/%s" % what, "%s (%s): %s" % (what, cname, msg))

    with FG.Scratch() as sc:
        src = sc.write("recs.txt", raw)
        try:
            readers = [F.RecordFile] + ([F.MemoryMappedRecordFile] if raw else [])
            for rd in readers:
                with rd(src, cls) as f:
                    if len(f) != len(recs):
                        fail("len/wrong", "%s: len %d expected %d" % (rd.__name__, len(f), len(recs)))
                        return
                    got = list(f)
                    if got != recs:
                        fail("iteration/wrong", "%s: %r expected %r" % (rd.__name__, got[:4], recs[:4]))
                        return
                    for i in range(-len(recs), len(recs)):
                        if f[i] != recs[i]:
                            fail("getitem/wrong", "%s[%d]=%r expected %r" % (rd.__name__, i, f[i], recs[i]))
                            return
                    if f[1::2] != recs[1::2] or f[::-1] != recs[::-1]:
                        fail("slice/wrong", "%s slices differ" % rd.__name__)
                        return
                    for sl in (slice(None, None, -2), slice(None, None, -3), slice(-1, 0, -2), slice(-2, None, -3), slice(1, None, 3), slice(-3, None)):
                        if f[sl] != recs[sl]:
                            fail("slice/wrong", "%s[%r] gives %r, a list gives %r" % (rd.__name__, sl, f[sl][:4], recs[sl][:4]))
                            return
                    # every access returns load(line): a record the caller was given earlier and has modified since must not
                    # come back (nor be shared by two lines of one slice)
                    if recs and getattr(recs[0], "__dict__", None):
                        name = next(iter(vars(recs[0])))
                        for i in (0, len(recs) - 1):
                            r = f[i]
                            setattr(r, name, "modified by the caller")
                            if f[i] != recs[i]:
                                fail("getitem/returns-a-record-the-caller-modified", "%s[%d] gives %r after the caller changed the record it got before; "
                                     "load(line) is %r" % (rd.__name__, i, f[i], recs[i]))
                                return
                        sl = f[0:2]
                        setattr(sl[0], name, "modified by the caller")
                        if sl[1:] != recs[1:2] or list(f) != recs:
                            fail("slice/records-share-state", "%s: changing one record of a slice changed another one / later reads" % rd.__name__)
                            return
                        ctx.label("caller-modified-a-returned-record")
            if not raw and case["mutable"].startswith("MutableMemory"):
                return
            mcls = FG.VARIANTS[case["mutable"]][0]
            model = list(recs)
            backed = [True] * len(model)
            with mcls(src, cls) as f:
                for o in case["ops"]:
                    k = o[0]
                    r = extra[o[2] % len(extra)] if len(o) > 2 else None
                    n = len(model)
                    if k == "set" and n:
                        i = o[1] % n
                        f[i] = r
                        model[i] = r
                        backed[i] = False
                    elif k == "del" and n:
                        i = o[1] % n
                        del f[i]
                        del model[i]
                        del backed[i]
                    elif k == "insert":
                        i = o[1] % (n + 1)
                        f.insert(i, r)
                        model.insert(i, r)
                        backed.insert(i, False)
                    elif k == "append":
                        f.append(r)
                        model.append(r)
                        backed.append(False)
                    elif k == "pop" and n:
                        i = o[1] % n
                        got = f.pop(i)
                        if got != model[i]:
                            fail("pop/wrong", "pop(%d)=%r expected %r" % (i, got, model[i]))
                        del model[i]
                        del backed[i]
                    elif k == "get" and n:
                        i = o[1] % n
                        if f[i] != model[i]:
                            fail("mutable-getitem/wrong", "f[%d]=%r expected %r" % (i, f[i], model[i]))
                    if list(f) != model:
                        fail("mutable-content/differs", "after %r: %r expected %r" % (o, list(f)[:4], model[:4]))
                        return
                out = sc.path("out.txt")
                f.save(out)
                if any(backed) and not all(backed):
                    ctx.label("mixed-view-save")
                    ctx.nontrivial = True
            with open(out, "rb") as fh:
                saved = fh.read()
            readers = [F.RecordFile] + ([F.MemoryMappedRecordFile] if saved else [])
            for rd in readers:
                with rd(out, cls) as g:
                    back = list(g)
                if back != model:
                    fail("save-reopen/differs", "reopened through %s: %r expected %r (bytes %r)" % (rd.__name__, back[:4], model[:4], saved[:80]))
                    return
        except Violation:
            raise
        except Exception as e:  # noqa
            fail("exception-%s" % type(e).__name__, "unexpected %r" % (e,))
            return
    if any(is_special(v) for vals in case["records"] + case["extra"] for v in flat(vals)):
        ctx.label("special-char-field")
        ctx.nontrivial = True


def reset_class_state():
    """every case starts from the state of a fresh interpreter (writers, shared buffer, field caches), so that a case is a
    pure function of its own record sequence and replays are exact; sharing across classes is exercised inside a case"""
    for holder, name in ((F.CSVRecord, "_writer"), (F.Record, "_class_fields_cache"), (F.Record, "_class_fields_types_cache")):
        d = getattr(holder, name, None)
        if isinstance(d, dict):
            d.clear()
    io_ = getattr(F.CSVRecord, "_res_io", None)
    if io_ is not None and hasattr(io_, "truncate"):
        try:
            io_.seek(0)
            io_.truncate(0)
        except Exception:  # noqa
            pass


def run_case(case, ctx):
    reset_class_state()
    (run_roundtrip if case["kind"] == "roundtrip" else run_file)(case, ctx)


# ------------------------------------------------------------------------------------------ generators

def strategies(tier):
    big = tier == "thorough"
    anytext = st.text(alphabet=st.one_of(st.sampled_from(list("\n\r\"\\ ,\tab{}[]:\u2028é𝄞\x00\x85")), st.characters(blacklist_categories=("Cs",))), max_size=6)
    # st.text() never produces lone surrogates (they are not encodable); JSON strings may hold them (os.fsdecode() makes them
    # from undecodable bytes), so they are joined by hand. Low surrogates only: a high one directly followed by a low one IS
    # JSON's spelling of an astral character and comes back as that character - JSON's doing, not the library's
    anytext = st.one_of(anytext, anytext, st.lists(st.sampled_from(["a", "\udcff", "\udc80", "é", " ", "\u2028", "\x85", "b"]), max_size=4).map("".join))
    jsonv = st.recursive(st.none() | st.booleans() | st.integers(-10 ** 40, 10 ** 40) | st.floats(allow_nan=False, allow_infinity=False) | anytext,
                         lambda ch: st.lists(ch, max_size=3) | st.dictionaries(anytext, ch, max_size=3), max_leaves=6)
    ftext = st.text(alphabet=st.one_of(st.sampled_from(list(",\t\"' \\;ab\x00\u2028é𝄞|")),
                                       st.characters(blacklist_characters="\n\r", blacklist_categories=("Cs",))), max_size=6)
    integer = st.integers(-10 ** 30, 10 ** 30)
    flt = st.floats(allow_nan=False, allow_infinity=False)
    field = {"j": jsonv, "i": integer, "f": flt, "s": ftext}

    def vals(name):
        return st.tuples(*[field[c] for c in LAYOUT[name]]).map(list)

    spec = st.sampled_from(sorted(CLASSES)).flatmap(lambda n: st.tuples(st.just(n), vals(n)).map(list))
    roundtrip = st.fixed_dictionaries({"kind": st.just("roundtrip"), "records": st.one_of(st.lists(spec, min_size=1, max_size=4), st.lists(spec, min_size=4, max_size=12))})
    EDIT = ["set", "del", "insert", "append", "pop", "get", "insert", "get"]
    file_case = st.sampled_from(sorted(CLASSES)).flatmap(lambda n: st.fixed_dictionaries({
        "kind": st.just("file"), "cls": st.just(n), "records": st.lists(vals(n), max_size=6), "extra": st.lists(vals(n), min_size=1, max_size=3),
        "mutable": st.sampled_from(["MutableRecordFile", "MutableMemoryMappedRecordFile"]), "final_nl": st.sampled_from([True, True, False]),
        "ops": codes(0, 12).map(lambda cs: [[EDIT[c % len(EDIT)], (c // 8) % 11, (c // 88) % 5] for c in cs])}))
    return [("roundtrips", roundtrip, 1200000 if big else 12000), ("record-files", file_case, 200000 if big else 3000)]


def enumerations(tier):
    return []
