"""C03 — a pool stays correct across consecutive calls and across worker replacement (E2 scheduler)."""
from . import poolcases as PC
from ..sched import poolsim as P
from ..common import case_hash

ID = "C03"
LEVEL = "exploration"
RULE = ("Cases: histories of 2..5 fully consumed imap / imap_unordered calls on ONE pool (lengths 0..8 with empty calls in between, chunk "
        "sizes, lazy/list inputs), FunctorPool and FactoryFunctorPool with max_chunks_per_worker in {1,2,3,inf}, workers 1..3, queue bounds "
        "as C01 including integer work_queue_maxsize smaller than the number of workers; payloads carry the call number so a result leaking "
        "from an earlier call is recognisable. Run under the harness-owned scheduler (schedule generated; the pipe-queue delivery step "
        "makes the order 'retiring worker's id' vs 'stop token' a generated choice). Oracle per call: C01's value oracle and C02's "
        "deadlock oracle; between calls no result/work chunk left in any queue; at the end the pool context is left. E5: every "
        "schedule with <=1 (quick) / <=2 (thorough) deviations for four small configurations, plus every schedule with <=2 deviations placed right before accesses to attributes of the pool object (preemption also inside a source line) for two small configurations. Non-trivial: >=2 calls and (a worker was "
        "replaced, or an empty call followed a non-empty one, or the schedule deviates from the base policy). "
        "Distinct = distinct (configuration, interleaving signature).")
EXPLANATION = "exhaustive sub-domain: all schedules with <=b deviations from two base policies for the listed small configurations"
ASSUMPTIONS = ["stand-ins have the semantics of the real primitives (DESIGN.md §3 E2 table)", "worker processes are threads on fork copies"]
FLOORS = {"quota": (0.3, "drawn"), "worker-replaced": (0.15, "drawn")}
SHARDS = {"quick": 14, "thorough": 14}
CASE_FUEL = None
HYP_SHRINK = False
WALL_GUARD = {"quick": 1500, "thorough": 8 * 3600}


def shard_setup(shard, nshards):
    PC.pin_shard(shard, nshards)


def verdicts(case, res):
    return P.value_verdicts(case, res) + P.liveness_verdicts(case, res)


def run_case(case, ctx):
    if case.get("real"):
        PC.judge_real(case, ctx, "FactoryFunctorPool" if case["pool"] == "factory" else "FunctorPool", True, True)
        return
    res = P.run_pool_case(case)
    labs = P.labels_for(case, res)
    ctx.label(*labs)
    if case.get("_drawn", True):
        ctx.label("drawn")
    calls = case["calls"]
    if any(a["n"] > 0 and b["n"] == 0 for a, b in zip(calls, calls[1:])):
        labs.add("empty-after-non-empty")
        ctx.label("empty-after-non-empty")
    ctx.extra["distinct_key"] = case_hash({k: v for k, v in case.items() if k != "sched"}) + res.sched.signature()
    if len(calls) >= 2 and labs & {"worker-replaced", "empty-after-non-empty", "schedule-deviates-from-base"}:
        ctx.nontrivial = True
    for sig, msg in verdicts(case, res):
        ctx.fail(sig, msg, detail={"explicit_schedule": PC.explicit(case, res)["sched"]})


def minimize(case, sig):
    return PC.minimise(case, sig, verdicts)


def _c(n, mode="o", chunk=1, inp="list"):
    return {"mode": mode, "n": n, "chunk": chunk, "input": inp, "delays": [0], "tail": 0}


SMALL = [
    {"pool": "factory", "workers": 1, "quota": 1, "wq": "1.0", "rq": None, "calls": [_c(1), _c(1), _c(1)], "_drawn": False},
    {"pool": "factory", "workers": 2, "quota": 1, "wq": "1.0", "rq": None, "calls": [_c(2), _c(2)], "_drawn": False},
    {"pool": "factory", "workers": 2, "quota": 1, "wq": 1, "rq": None, "calls": [_c(2)], "_drawn": False},
    {"pool": "functor", "workers": 2, "quota": None, "wq": "1.0", "rq": None, "calls": [_c(2), _c(0), _c(3, "u")], "_drawn": False},
]


SHARED = [
    {"pool": "factory", "workers": 1, "quota": 1, "wq": "1.0", "rq": None, "calls": [_c(1), _c(1)], "_drawn": False},
    {"pool": "functor", "workers": 1, "quota": None, "wq": "1.0", "rq": None, "calls": [_c(1, inp="gen"), _c(0), _c(1, "u")], "_drawn": False},
]


def enumerations(tier):
    b = 2 if tier == "thorough" else 1
    parts = [("all-schedules-<=2-deviations-at-shared-attribute-accesses-2-small-configs", PC.sweep_shared(SHARED), True),
             ("all-schedules-<=1-deviations-4-small-configs", PC.sweep(SMALL, 1), True)]
    if b == 2:
        parts.append(("schedules-<=2-deviations-2-small-configs-second-deviation-at-every-2nd-step", PC.sweep([SMALL[0], SMALL[2]], 2, thin=2), False))
    return parts


def strategies(tier):
    big = tier == "thorough"
    plain = PC.pool_strategy(max_calls=5, min_calls=2, max_n=8)
    quota = PC.pool_strategy(kinds=("factory",), quotas=(1, 1, 2, 3), max_calls=5, min_calls=2, max_n=8)
    n = 100000 if big else 3000
    return [("drawn-histories", plain, n // 2), ("drawn-quota-histories", quota, n // 2),
            ("real-processes-quota-histories", PC.real_strategy(quota), 300 if big else 14, {"shrink": False})]
