"""C08 — DoublyLinkedList behaves as a sequence and keeps links and length consistent (E1 + E5)."""
import itertools

from hypothesis import strategies as st

from windpyutils.structures.lists import DoublyLinkedList

ID = "C08"
LEVEL = "exploration"
RULE = ("Cases: an initial payload list over a 2-letter alphabet (equal payloads are the norm) followed by a history "
        "of append/prepend/extend/pre_extend/remove/pop_back/pop_front/move_to_front/move_to_back/move_after/rotate/"
        "len/traversal, node operands resolved modulo the current length; after every operation the list is compared "
        "by node identity with a Python list of node objects, and all links, head, tail and len() are checked. "
        "'long' cases build 400..3000 equal payloads and operate on nodes deep in the list. E5: all histories of "
        "length<=3 over the full operation alphabet on lists of <=3 equal payloads. Non-trivial: a move/rotate on a "
        "list holding >=2 equal payloads (followed by the full consistency check), or a long-run case. "
        "Distinct = distinct case JSON.")
EXPLANATION = "exhaustive sub-domain: all operation sequences of length<=3 on 0..3 equal payloads"
ASSUMPTIONS = ["only nodes that belong to the list are passed to node operations (as the statement says)"]
FLOORS = {"move": (0.36, "hist"), "equal-payload-move": (0.221, "hist")}
SHARDS = {"quick": 12, "thorough": 14}

NODE_OPS = ("remove", "move_to_front", "move_to_back")


def check_list(ctx, l, model, after):
    n = len(model)
    # len() is asked first, before anything walks the list: a size that a complete traversal re-synchronises (round 17) is only
    # wrong between the operation and the next traversal; it is asked again after the traversals below
    try:
        ln0 = len(l)
    except Exception:  # noqa - reported by the second len() below
        ln0 = n
    ctx.need(ln0 == n, "DoublyLinkedList/%s/len-wrong" % after,
             lambda: "len()=%d right after %s, before any traversal, but the list holds %d elements" % (ln0, after, n))
    nodes = list(itertools.islice(l.iter_nodes(), n + 2))
    ok = len(nodes) == n and all(a is b for a, b in zip(nodes, model))
    ctx.need(ok, "DoublyLinkedList/%s/traversal-differs" % after,
             lambda: "after %s forward traversal has %d nodes (identity match=%s), reference has %d" % (after, len(nodes), ok, n))
    data = list(itertools.islice(iter(l), n + 2))
    ctx.need(data == [m.data for m in model], "DoublyLinkedList/%s/payloads-differ" % after,
             lambda: "payloads %r vs %r" % (data[:10], [m.data for m in model][:10]))
    try:
        ln = len(l)
    except Exception as e:  # noqa
        ctx.fail("DoublyLinkedList/%s/len-raises-%s" % (after, type(e).__name__), "len() raised %r after %s (the list holds %d elements)" % (e, after, n))
        return
    ctx.need(ln == n, "DoublyLinkedList/%s/len-wrong" % after,
             lambda: "len()=%d but the list holds %d elements after %s" % (ln, n, after))
    if not model:
        ctx.need(l.head is None and l.tail is None, "DoublyLinkedList/%s/empty-head-tail" % after, "head/tail not None on empty list")
        return
    ctx.need(l.head is model[0], "DoublyLinkedList/%s/head-wrong" % after, "head is not the first node")
    ctx.need(l.tail is model[-1], "DoublyLinkedList/%s/tail-wrong" % after, "tail is not the last node")
    ctx.need(l.head.prev_node is None, "DoublyLinkedList/%s/head-prev" % after, "head.prev_node is not None")
    ctx.need(l.tail.next_node is None, "DoublyLinkedList/%s/tail-next" % after, "tail.next_node is not None")
    for a, b in zip(model, model[1:]):
        if not (a.next_node is b and b.prev_node is a):
            ctx.fail("DoublyLinkedList/%s/links-inconsistent" % after, "neighbour links are not mutually consistent")
            break
    # backward traversal
    back = []
    node = l.tail
    while node is not None and len(back) < n + 2:
        back.append(node)
        node = node.prev_node
    ctx.need(len(back) == n and all(a is b for a, b in zip(back, reversed(model))),
             "DoublyLinkedList/%s/backward-traversal-differs" % after, "backward traversal does not mirror the reference")


class _Lazy(Exception):
    pass


def idx_of(model, node):
    for i, x in enumerate(model):
        if x is node:
            return i
    raise AssertionError


def apply_op(ctx, l, model, o):
    k = o[0]

    def call(fn):
        try:
            return fn()
        except IndexError:
            raise
        except Exception as e:  # noqa
            ctx.fail("DoublyLinkedList/%s/exception-%s" % (k, type(e).__name__),
                     "%s raised %s on a list of %d elements" % (k, type(e).__name__, len(model)))
            raise _Abort()

    equal_payloads = len(model) >= 2 and len({repr(m.data) for m in model}) < len(model)
    if k == "append":
        model.append(call(lambda: l.append(o[1])))
    elif k == "prepend":
        model.insert(0, call(lambda: l.prepend(o[1])))
    elif k == "extend":
        n0 = len(model)
        call(lambda: l.extend(list(o[1]) if len(o[1]) % 2 == 0 else (x for x in o[1])))
        new = list(itertools.islice(l.iter_nodes(), n0 + len(o[1]) + 2))
        ctx.need(len(new) == n0 + len(o[1]) and all(a is b for a, b in zip(new, model)) and [x.data for x in new[n0:]] == list(o[1]),
                 "DoublyLinkedList/extend/wrong", "extend did not append the items in order")
        model[:] = new
    elif k == "pre_extend":
        old = list(model)
        call(lambda: l.pre_extend(list(o[1]) if len(o[1]) % 2 == 0 else (x for x in o[1])))
        new = list(itertools.islice(l.iter_nodes(), len(old) + len(o[1]) + 2))
        m = len(o[1])
        ctx.need(len(new) == len(old) + m and [x.data for x in new[:m]] == list(o[1])[::-1] and all(a is b for a, b in zip(new[m:], old)),
                 "DoublyLinkedList/pre_extend/wrong", "pre_extend did not prepend the items one by one")
        model[:] = new
    elif k in ("extend_raise", "pre_extend_raise"):
        # the iterable is lazy and fails after j items: the exception comes out and the list stays a consistent list that holds
        # the old nodes in order plus the nodes of some prefix of the items already delivered (none is fine as well)
        items, j = list(o[1]), o[2] % (len(o[1]) + 1)
        old = list(model)

        def lazy():
            for x in items[:j]:
                yield x
            raise _Lazy()
        try:
            (l.extend if k == "extend_raise" else l.pre_extend)(lazy())
            ctx.fail("DoublyLinkedList/%s/exception-swallowed" % k, "the exception raised by the iterable did not come out")
        except _Lazy:
            pass
        except Exception as e:  # noqa
            ctx.fail("DoublyLinkedList/%s/exception-%s" % (k, type(e).__name__), "%s raised %s instead of the iterable's exception" % (k, type(e).__name__))
        new = list(itertools.islice(l.iter_nodes(), len(old) + len(items) + 2))
        extra = len(new) - len(old)
        if k == "extend_raise":
            ok = 0 <= extra <= j and all(a is b for a, b in zip(new, old)) and [x.data for x in new[len(old):]] == items[:extra]
        else:
            ok = 0 <= extra <= j and all(a is b for a, b in zip(new[extra:], old)) and [x.data for x in new[:extra]] == items[:extra][::-1]
        ctx.need(ok, "DoublyLinkedList/%s/wrong-content-after-failed-iterable" % k,
                 lambda: "old %d nodes, after the failed %s (%d items delivered) forward traversal has %d nodes" % (len(old), k, j, len(new)))
        model[:] = new
        ctx.label("extend-from-failing-iterable")
    elif k in NODE_OPS:
        if not model:
            return False
        n = model.pop(o[1] % len(model))
        call(lambda: getattr(l, k)(n))
        if k == "move_to_front":
            model.insert(0, n)
        elif k == "move_to_back":
            model.append(n)
        if k != "remove":
            ctx.label("move")
            if equal_payloads:
                ctx.label("equal-payload-move")
                ctx.nontrivial = True
    elif k == "move_after":
        if not model:
            return False
        n = model[o[1] % len(model)]
        a = model[o[2] % len(model)]
        call(lambda: l.move_after(n, a))
        if n is not a:
            model.pop(idx_of(model, n))
            model.insert(idx_of(model, a) + 1, n)
        else:
            ctx.label("move-after-self")
        ctx.label("move")
        if equal_payloads:
            ctx.label("equal-payload-move")
            ctx.nontrivial = True
    elif k in ("pop_back", "pop_front"):
        if model:
            exp = model.pop() if k == "pop_back" else model.pop(0)
            got = call(lambda: getattr(l, k)())
            ctx.need(got == exp.data, "DoublyLinkedList/%s/wrong-value" % k, "returned %r expected %r" % (got, exp.data))
        else:
            try:
                getattr(l, k)()
                ctx.fail("DoublyLinkedList/%s/no-IndexError" % k, "pop on an empty list did not raise IndexError")
            except IndexError:
                ctx.label("pop-empty")
            except Exception as e:  # noqa
                ctx.fail("DoublyLinkedList/%s/exception-%s" % (k, type(e).__name__), "pop on empty raised %r" % e)
    elif k == "rotate":
        call(lambda: l.rotate(bool(o[1])))
        if model:
            if o[1]:
                model.append(model.pop(0))
            else:
                model.insert(0, model.pop())
        ctx.label("move")
        if equal_payloads:
            ctx.label("equal-payload-move")
            ctx.nontrivial = True
    else:
        raise AssertionError(k)
    return True


class _Abort(Exception):
    pass


def run_case(case, ctx):
    if case["kind"] == "hist":
        ctx.label("hist")
        init = case["init"]
        l = DoublyLinkedList(list(init)) if init is not None else DoublyLinkedList()
        model = list(itertools.islice(l.iter_nodes(), len(init or []) + 2))
        ctx.need([m.data for m in model] == list(init or []), "DoublyLinkedList/init/wrong", "constructor content differs")
        check_list(ctx, l, model, "init")
        for o in case["ops"]:
            try:
                apply_op(ctx, l, model, o)
            except _Abort:
                return
            check_list(ctx, l, model, o[0])
    elif case["kind"] == "long":
        ctx.label("long")
        ctx.nontrivial = True
        n = case["n"]
        l = DoublyLinkedList([case.get("payload", 0)] * n)
        model = list(itertools.islice(l.iter_nodes(), n + 2))
        for o in case["ops"]:
            # operate on nodes deep in the list: operands are offsets from the tail
            o = list(o)
            if o[0] in NODE_OPS or o[0] == "move_after":
                o[1] = len(model) - 1 - (o[1] % max(1, min(len(model), 40)))
                if o[0] == "move_after":
                    o[2] = len(model) - 1 - (o[2] % max(1, min(len(model), 40)))
            try:
                apply_op(ctx, l, model, o)
            except _Abort:
                return
            check_list(ctx, l, model, o[0])
    else:
        raise AssertionError(case["kind"])


# ------------------------------------------------------------------------------------------ generators

PAY = st.sampled_from(["a", "b", "a", "b", None, 0, ""])   # falsy and None payloads: nothing may depend on the truth value of a payload
IDX = st.integers(0, 20)
OP = st.one_of(
    st.tuples(st.sampled_from(["append", "prepend"]), PAY),
    st.tuples(st.sampled_from(["extend", "pre_extend"]), st.lists(PAY, max_size=3)),
    st.tuples(st.sampled_from(["extend_raise", "pre_extend_raise"]), st.lists(PAY, max_size=3), st.integers(0, 3)),
    st.tuples(st.sampled_from(NODE_OPS), IDX),
    st.tuples(st.sampled_from(["move_to_front", "move_to_back"]), IDX),
    st.tuples(st.just("move_after"), IDX, IDX),
    st.tuples(st.just("move_after"), IDX, IDX),
    st.tuples(st.sampled_from(["pop_back", "pop_front"])),
    st.tuples(st.just("rotate"), st.booleans()),
).map(list)


def strategies(tier):
    big = tier == "thorough"
    hist = st.fixed_dictionaries({"kind": st.just("hist"), "init": st.one_of(st.none(), st.lists(PAY, max_size=8)),
                                  "ops": st.lists(OP, max_size=40)})
    long_ = st.fixed_dictionaries({"kind": st.just("long"), "n": st.sampled_from([400, 700, 1200, 3000]),
                                   "payload": st.sampled_from([0, "x", None]),
                                   "ops": st.lists(OP.filter(lambda o: o[0] not in ("extend", "pre_extend", "extend_raise", "pre_extend_raise")), min_size=1, max_size=5)})
    return [("histories", hist, 3000000 if big else 30000), ("long-runs", long_, 3000 if big else 84)]


def enum_small():
    alphabet = []
    for i in range(3):
        for k in NODE_OPS:
            alphabet.append([k, i])
        for j in range(3):
            alphabet.append(["move_after", i, j])
    alphabet += [["append", "a"], ["prepend", "a"], ["pop_back"], ["pop_front"], ["rotate", True], ["rotate", False]]
    for n in range(0, 4):
        for ln in range(0, 4):
            for ops in itertools.product(alphabet, repeat=ln):
                yield {"kind": "hist", "init": ["a"] * n, "ops": [list(o) for o in ops]}


def enumerations(tier):
    return [("all-histories-len<=3-on-<=3-equal-payloads", enum_small, True)]
