"""C04, pool level (E2): instrumented workers inside call histories under the harness-owned scheduler."""
from . import poolcases as PC
from ..sched import poolsim as P
from ..common import case_hash


def verdicts(case, res):
    out = P.lifecycle_verdicts(case, res)
    if isinstance(res.outcome, tuple) and res.outcome[0] == "deadlock" and not res.left_context:
        main = [x for x in res.outcome[1] if x[0] == "consumer"]
        if main and res.calls_done == len(case["calls"]) and main[0][2] and main[0][2][0] == "__exit__":
            name = "FactoryFunctorPool" if case["pool"] == "factory" else "FunctorPool"
            return [("%s/pool-exit-never-completes/%s" % (name, (main[0][1] or "?").split(":")[0]), P.describe_deadlock(res))]
        return []
    return out


def run_case(case, ctx):
    res = P.run_pool_case(case)
    labs = P.labels_for(case, res)
    ctx.label(*labs)
    ctx.label("pool-level")
    if case.get("ready_at") is not None and res.ready_checks:
        ctx.label("until_all_ready-called")
        if case.get("begin_delay"):
            ctx.label("until_all_ready-with-slow-begin")
    if (case.get("ready_mid") or case.get("ready_thread")) and res.ready_checks and "worker-replaced" in labs:
        ctx.label("until_all_ready-during-a-call-with-replacements")
    ctx.extra["distinct_key"] = case_hash({k: v for k, v in case.items() if k != "sched"}) + res.sched.signature()
    if labs & {"worker-replaced", "quota"} or "until_all_ready-with-slow-begin" in ctx.labels:
        ctx.nontrivial = True
    if "deadlocked" in labs and not res.left_context:
        # a call that never finishes is C02/C03's verdict; C04 judges lifecycles of runs that leave the pool - except when every
        # call has finished and the consumer is stuck in the pool's own exit protocol (stop orders + join), which is C04's mechanism
        main = [x for x in res.outcome[1] if x[0] == "consumer"]
        if main and res.calls_done == len(case["calls"]) and main[0][2] and main[0][2][0] == "__exit__":
            name = "FactoryFunctorPool" if case["pool"] == "factory" else "FunctorPool"
            ctx.fail("%s/pool-exit-never-completes/%s" % (name, (main[0][1] or "?").split(":")[0]),
                     "all calls finished but leaving the pool context blocks: %s" % P.describe_deadlock(res),
                     detail={"explicit_schedule": PC.explicit(case, res)["sched"]})
        return
    for sig, msg in verdicts(case, res):
        ctx.fail(sig, msg, detail={"explicit_schedule": PC.explicit(case, res)["sched"]})


def minimize(case, sig):
    return PC.minimise(case, sig, verdicts)


def _c(n, mode="o", chunk=1, inp="list"):
    return {"mode": mode, "n": n, "chunk": chunk, "input": inp, "delays": [0], "tail": 0}


SMALL = [
    {"kind": "pool", "pool": "factory", "workers": 2, "quota": 1, "wq": 1, "rq": None, "calls": [_c(2)], "begin_delay": 10, "ready_at": 0},
    {"kind": "pool", "pool": "factory", "workers": 1, "quota": 2, "wq": "1.0", "rq": None, "calls": [_c(2), _c(1)], "ready_at": 1},
    {"kind": "pool", "pool": "functor", "workers": 2, "quota": None, "wq": "1.0", "rq": None, "calls": [_c(1)], "begin_delay": 30, "ready_at": 0},
    {"kind": "pool", "pool": "factory", "workers": 1, "quota": 1, "wq": "1.0", "rq": None, "calls": [_c(2)], "repl_begin_delay": 10, "ready_mid": [0, 1],
     "ready_thread": {"start": 10, "gap": 2, "reps": 6}},
    {"kind": "pool", "pool": "functor", "workers": 3, "quota": None, "wq": 1, "rq": None, "calls": [_c(0)], "begin_delay": 300},
]


def enumerations(tier):
    b = 2 if tier == "thorough" else 1
    parts = [("pool-level-all-schedules-<=1-deviations-5-small-configs", PC.sweep(SMALL, 1), True)]
    if b == 2:
        parts.append(("pool-level-schedules-<=2-deviations-5-small-configs-second-deviation-at-every-3rd-step", PC.sweep(SMALL, 2, thin=3), False))
    return parts


def strategies(tier):
    big = tier == "thorough"
    plain = PC.pool_strategy(max_calls=3, min_calls=1, max_n=8).map(lambda c: dict(c, kind="pool"))
    quota = PC.pool_strategy(kinds=("factory",), quotas=(1, 1, 2, 3), max_calls=4, min_calls=1, max_n=8).map(lambda c: dict(c, kind="pool"))
    n = 150000 if big else 3000
    return [("pool-level-histories", plain, n // 3, {"shrink": False}), ("pool-level-quota-histories", quota, 2 * n // 3, {"shrink": False})]
