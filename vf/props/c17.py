"""C17 — sorted_combinations is complete and key-ordered; min-combination search exact (E1 + E5)."""
import itertools

from hypothesis import strategies as st

from windpyutils import generic as G

from ..common import FuelSession, OutOfFuel

ID = "C17"
LEVEL = "exploration"
RULE = ("Cases: 'comb': n=0..9 elements (distinct or repeated) with integer weights and a monotone key family (sum of non-negative "
        "weights, max, length, product of weights>=1), yield_key on/off; the generator is consumed through islice(2^n + 2) under a "
        "line-count fuel and compared as a multiset with itertools.combinations over indices, keys must be non-decreasing and the "
        "yielded key must equal key(comb). 'interval': non-negative integer score vectors (ties, zeros) with [i_start, i_end) in and "
        "beyond the range of sums (empty, reversed); the returned (combination, sum) pairs must equal the brute-force set for the "
        "smallest sum inside the interval, each once. E5: all score vectors in {0..3}^n, n<=4, x all intervals over -1..13. "
        "Keys need not be numbers: (length, sum) tuples, the combination itself and strings are in the key family. Non-trivial: >=2 different combinations share a key (ties). Distinct = distinct case JSON.")
EXPLANATION = "exhaustive sub-domain: score vectors {0..3}^n for n<=4 with every interval [a,b), a,b in -1..13"
ASSUMPTIONS = ["keys are monotone under appending an element (the documented precondition); scores are non-negative integers"]
FLOORS = {}
SHARDS = {"quick": 12, "thorough": 14}


def key_fn(name, w):
    if name == "sum":
        return lambda c: sum(w[i] for i in c)
    if name == "max":
        return lambda c: max(w[i] for i in c)
    if name == "len":
        return len
    if name == "prod":
        def prod(c):
            r = 1
            for i in c:
                r *= w[i] + 1
            return r
        return prod
    # keys need not be numbers: anything ordered that never decreases when an element is appended
    if name == "tuple":
        return lambda c: (len(c), sum(w[i] for i in c))
    if name == "ident":
        return lambda c: tuple(c)
    if name == "str":
        return lambda c: "".join(chr(97 + i) for i in c)
    raise AssertionError(name)


def run_comb(case, ctx):
    w = case["w"]
    n = len(w)
    idx = list(range(n))
    key = key_fn(case["key"], w)
    yk = case["yield_key"]
    limit = 2 ** n + 2
    try:
        with FuelSession(400 * (2 ** n) * (n + 2) + 5000):
            out = list(itertools.islice(G.sorted_combinations(idx, key, yield_key=yk), limit))
    except OutOfFuel:
        ctx.fail("sorted_combinations/non-terminating", "ran out of fuel for n=%d" % n)
        return
    except Exception as e:  # noqa
        ctx.fail("sorted_combinations/exception-%s" % type(e).__name__, "raised %r for weights %r key %s" % (e, w, case["key"]))
        return
    if not ctx.need(len(out) <= 2 ** n - 1 or n == 0 and not out, "sorted_combinations/too-many",
                    lambda: "yields more than 2^n-1=%d combinations for n=%d" % (2 ** n - 1, n)):
        return
    try:
        combs = [tuple(o[0]) for o in out] if yk else [tuple(o) for o in out]
    except TypeError:
        ctx.fail("sorted_combinations/shape", "output elements have the wrong shape: %r" % (out[:3],))
        return
    brute = [c for r in range(1, n + 1) for c in itertools.combinations(idx, r)]
    if not ctx.need(sorted(combs) == sorted(brute), "sorted_combinations/not-a-permutation-of-all-combinations",
                    lambda: "weights %r: missing %r, extra/duplicated %r" % (w, sorted(set(brute) - set(combs))[:5],
                                                                               [c for c in combs if combs.count(c) > 1 or c not in brute][:5])):
        return
    keys = [key(c) for c in combs]
    ctx.need(keys == sorted(keys), "sorted_combinations/keys-not-non-decreasing", lambda: "weights %r key %s: key sequence %r" % (w, case["key"], keys))
    if yk:
        ctx.need([o[1] for o in out] == keys, "sorted_combinations/yielded-key-wrong", "yielded key differs from key(comb)")
    if len(set(keys)) < len(keys):
        ctx.nontrivial = True
        ctx.label("tied-keys")
    ctx.label("comb")
    # elements that are not their own index (repeats allowed): output must be the index-ordered tuples of elements
    els = case.get("els")
    if els:
        els = [els[i % len(els)] for i in range(n)]
        elw = {"a": 0, "b": 1, "c": 2}
        key2 = len if case["key"] in ("len", "max") else (lambda c: sum(elw[x] for x in c))
        try:
            with FuelSession(400 * (2 ** n) * (n + 2) + 5000):
                out2 = list(itertools.islice(G.sorted_combinations(els, key2, yield_key=yk), limit))
        except OutOfFuel:
            ctx.fail("sorted_combinations/non-terminating", "ran out of fuel for n=%d" % n)
            return
        except Exception as e:  # noqa
            ctx.fail("sorted_combinations/exception-%s" % type(e).__name__, "raised %r for (mutually comparable, repeated) elements %r" % (e, els))
            return
        exp = sorted(tuple(els[i] for i in c) for c in brute)
        try:
            combs2 = [tuple(o[0]) for o in out2] if yk else [tuple(o) for o in out2]
        except TypeError:
            ctx.fail("sorted_combinations/shape", "output elements have the wrong shape: %r" % (out2[:3],))
            return
        if not ctx.need(sorted(combs2) == exp, "sorted_combinations/repeated-elements-wrong", lambda: "elements %r: %r" % (els, out2[:6])):
            return
        keys2 = [key2(c) for c in combs2]
        ctx.need(keys2 == sorted(keys2), "sorted_combinations/keys-not-non-decreasing", lambda: "elements %r: key sequence %r" % (els, keys2))
        if yk:
            ctx.need([o[1] for o in out2] == keys2, "sorted_combinations/yielded-key-wrong", "yielded key differs from key(comb) (repeated elements)")
        ctx.label("repeated-elements")


def run_interval(case, ctx):
    w, a, b = case["w"], case["a"], case["b"]
    n = len(w)
    # elements are arbitrary objects: half of the cases use ones that cannot be ordered (nothing may compare elements)
    els = ["e%d" % i for i in range(n)] if (a + b + n) % 2 else [complex(i, 1) for i in range(n)]
    try:
        with FuelSession(600 * (2 ** n) * (n + 2) + 5000):
            got = G.min_combinations_in_interval_iter_sorted(els, w, a, b)
    except OutOfFuel:
        ctx.fail("min_combinations/non-terminating", "ran out of fuel for n=%d" % n)
        return
    except Exception as e:  # noqa
        ctx.fail("min_combinations/exception-%s" % type(e).__name__, "raised %r for scores %r interval [%r,%r)" % (e, w, a, b))
        return
    brute = [c for r in range(1, n + 1) for c in itertools.combinations(range(n), r)]
    sums = [(c, sum(w[i] for i in c)) for c in brute]
    inside = [s for _, s in sums if a <= s < b]
    pos = {e: i for i, e in enumerate(els)}
    exp = sorted(([i for i in c], s) for c, s in sums if inside and s == min(inside))
    try:
        gs = sorted(([pos[e] for e in c], s) for c, s in got)
    except (TypeError, ValueError, KeyError):
        ctx.fail("min_combinations/shape", "result has the wrong shape: %r" % (got,))
        return
    ctx.need(gs == exp, "min_combinations/wrong", lambda: "scores %r interval [%r,%r): got %r expected %r" % (w, a, b, gs, exp))
    if len(exp) >= 2:
        ctx.nontrivial = True
        ctx.label("tied-minimum")
    if not exp:
        ctx.label("empty-result")
    ctx.label("interval")


def run_case(case, ctx):
    (run_comb if case["kind"] == "comb" else run_interval)(case, ctx)


def enum_interval():
    for n in range(0, 5):
        for w in itertools.product(range(4), repeat=n):
            for a in range(-1, 14):
                for b in range(-1, 14):
                    yield {"kind": "interval", "w": list(w), "a": a, "b": b}


def enum_comb():
    for n in range(0, 5):
        for w in itertools.product(range(3), repeat=n):
            for key in ("sum", "max", "len", "prod", "tuple", "ident", "str"):
                for yk in (False, True):
                    yield {"kind": "comb", "w": list(w), "key": key, "yield_key": yk}


def enumerations(tier):
    return [("interval-scores{0..3}^n<=4-all-intervals", enum_interval, True), ("comb-weights{0..2}^n<=4-7keys", enum_comb, True)]


def strategies(tier):
    big = tier == "thorough"
    comb = st.fixed_dictionaries({"kind": st.just("comb"), "w": st.lists(st.integers(0, 4), max_size=9), "key": st.sampled_from(["sum", "max", "len", "prod", "tuple", "ident", "str"]),
                                  "yield_key": st.booleans(), "els": st.one_of(st.none(), st.lists(st.sampled_from(["a", "b", "c"]), min_size=1, max_size=4))})
    interval = st.fixed_dictionaries({"kind": st.just("interval"), "w": st.lists(st.integers(0, 5), max_size=9),
                                      "a": st.integers(-1, 30), "b": st.integers(-1, 32)})
    n = 1000000 if big else 6000
    return [("comb-drawn", comb, n // 2), ("interval-drawn", interval, n // 2)]
