"""E4 — reality tier: the same case format executed with REAL multiprocessing (processes, managers, queues) in a child session,
arrival order steered by generated sleeps, hang decided by a quiescence watchdog (no CPU consumed by any process of the case
for QUIET seconds while the consumer has not finished), never by a bare timeout (DESIGN.md §3 E4).

    python -m vf.reality <case.json>      (internal: runs one case, prints one JSON line)
"""
import json
import os
import signal
import subprocess
import sys
import tempfile
import time

QUIET = 20.0
WALL = 240.0
STEP_S = 1.0 / 2500   # one simulated scheduler step of delay ~ 0.4 ms of sleep


def _sleep(steps):
    if steps:
        time.sleep(min(2.0, steps * STEP_S))


def f(x):
    return [x, 2 * x + 1]


def child_main(case):
    import math
    import multiprocessing
    from windpyutils.parallel import own_proc_pools as opp
    ctx = multiprocessing.get_context(case.get("start_method", "fork"))
    slow = {int(k): v for k, v in (case.get("slow") or {}).items()}
    begin_delay = case.get("begin_delay", 0)

    end_delay = case.get("end_delay", 0)
    created = []

    class W(opp.BaseFunctorWorker, ctx.Process):
        def __init__(self, quota):
            opp.BaseFunctorWorker.__init__(self, ctx, math.inf if quota is None else quota)
            self.begin_called = ctx.Event()
            self.begin_done = ctx.Event()
            self.end_done = ctx.Event()
            created.append(self)

        def begin(self):
            self.begin_called.set()
            _sleep(begin_delay)
            self.begin_done.set()

        def end(self):
            _sleep(end_delay)
            self.end_done.set()

        def __call__(self, x):
            if x % 1000 in slow:
                _sleep(slow[x % 1000])
            return f(x)

    class Fac(opp.FunctorWorkerFactory):
        def create(self):
            return W(case.get("quota"))

    def make_input(call, ci):
        n = call["n"]
        items = [ci * 1000 + i for i in range(n)]
        kind = call.get("input", "list")
        if kind == "list":
            return items
        if kind == "tuple":
            return tuple(items)
        if kind == "iter":
            return iter(items)
        if kind == "deque":
            import collections
            return collections.deque(items)
        if kind == "intseq":
            from .sched.poolsim import IntSeq
            return IntSeq(items)
        if kind == "keys":
            return dict.fromkeys(items).keys()
        if kind == "range":
            return range(ci * 1000, ci * 1000 + n)
        delays = call.get("delays") or [0]
        tail = call.get("tail", 0)

        def gen():
            for i, x in enumerate(items):
                _sleep(delays[i % len(delays)])
                yield x
            _sleep(tail)
        return gen()

    wq = case.get("wq", 1.0)
    wq = float(wq) if isinstance(wq, str) else wq
    out = {"outputs": [], "calls_done": 0, "left": False, "exc": None}
    try:
        if case["kind"] in ("pool",):
            if case["pool"] == "factory":
                pool = opp.FactoryFunctorPool(case["workers"], Fac(), ctx, wq, case.get("rq"))
            else:
                pool = opp.FunctorPool([W(None) for _ in range(case["workers"])], ctx, wq, case.get("rq"))
            cdelay = case.get("cdelay") or [0]
            out["not_ready_after_until_all_ready"] = 0
            with pool:
                for ci, call in enumerate(case["calls"]):
                    if case.get("ready_at") == ci:
                        pool.until_all_ready()
                        out["not_ready_after_until_all_ready"] += sum(1 for p in pool.procs if not p.begin_done.is_set())
                    fn = pool.imap if call["mode"] == "o" else pool.imap_unordered
                    res = []
                    out["outputs"].append(res)
                    k = 0
                    for x in fn(make_input(call, ci), call.get("chunk", 1)):
                        res.append(x)
                        _sleep(cdelay[k % len(cdelay)])
                        k += 1
                        if len(res) > 3 * call["n"] + 10:
                            break
                    out["calls_done"] += 1
                    print(json.dumps({"progress": out["calls_done"]}), flush=True)
            # the moment the pool context has been left
            out["alive_after_exit"] = sum(1 for w in created if w.pid is not None and w.exitcode is None)
            out["end_not_done_after_exit"] = sum(1 for w in created if w.pid is not None and not w.end_done.is_set())
            out["workers_created"] = len(created)
            out["left"] = True
        elif case["kind"] == "fmap":
            from windpyutils.parallel.pools import FunctorMap

            def pf(x):
                if x % 1000 in slow:
                    _sleep(slow[x % 1000])
                return f(x)
            with FunctorMap(pf, workers=case["workers"]) as fm:
                for ci, call in enumerate(case["calls"]):
                    out["outputs"].append(list(fm(make_input(call, ci), call.get("chunk", 1))))
                    out["calls_done"] += 1
            out["left"] = True
        elif case["kind"] == "mulp":
            from windpyutils.parallel.maps import mul_p_map

            def pf(x):
                if x % 1000 in slow:
                    _sleep(slow[x % 1000])
                return f(x)
            for ci, call in enumerate(case["calls"]):
                out["outputs"].append(mul_p_map(pf, make_input(call, ci), case["workers"]))
                out["calls_done"] += 1
            out["left"] = True
    except BaseException as e:  # noqa
        out["exc"] = "%s: %s" % (type(e).__name__, e)
    print(json.dumps(out), flush=True)


def _group_cpu(sid):
    total = 0
    n = 0
    for pid in os.listdir("/proc"):
        if not pid.isdigit():
            continue
        try:
            with open("/proc/%s/stat" % pid) as fh:
                st = fh.read()
        except OSError:
            continue
        rest = st[st.rfind(")") + 2:].split()
        try:
            if int(rest[3]) != sid:   # session id
                continue
            total += int(rest[11]) + int(rest[12])
            n += 1
        except (ValueError, IndexError):
            continue
    return total, n


def run_real(case):
    """returns dict(outputs, calls_done, left, exc, verdict) with verdict in ok | deadlock | inconclusive"""
    scratch = os.environ.get("VF_SCRATCH") or tempfile.gettempdir()
    fd, path = tempfile.mkstemp(prefix="real-", suffix=".json", dir=scratch)
    with os.fdopen(fd, "w") as fh:
        json.dump(case, fh)
    outp = path + ".out"
    with open(outp, "w") as ofh:
        p = subprocess.Popen([sys.executable, "-B", "-m", "vf.reality", path], stdout=ofh, stderr=subprocess.DEVNULL,
                             start_new_session=True, cwd=os.path.dirname(os.path.dirname(os.path.abspath(__file__))))
    t0 = time.time()
    last_cpu, last_change = -1, time.time()
    verdict = "ok"
    try:
        while True:
            try:
                p.wait(0.25)
                break
            except subprocess.TimeoutExpired:
                pass
            cpu, n = _group_cpu(p.pid)
            now = time.time()
            if cpu != last_cpu:
                last_cpu, last_change = cpu, now
            elif now - last_change > QUIET:
                verdict = "deadlock"
                break
            if now - t0 > WALL:
                verdict = "inconclusive"
                break
    finally:
        try:
            os.killpg(p.pid, signal.SIGKILL)
        except (ProcessLookupError, PermissionError):
            pass
        p.wait()
    res = {"outputs": [], "calls_done": 0, "left": False, "exc": None}
    try:
        with open(outp) as fh:
            lines = [l for l in fh.read().splitlines() if l.strip()]
        for l in lines:
            d = json.loads(l)
            if "progress" in d:
                res["calls_done"] = d["progress"]
            else:
                res = d
    except (OSError, ValueError):
        pass
    for q in (path, outp):
        try:
            os.remove(q)
        except OSError:
            pass
    if verdict == "ok" and not res.get("left") and res.get("exc") is None:
        verdict = "inconclusive"
    res["verdict"] = verdict
    res["wall"] = time.time() - t0
    return res


if __name__ == "__main__":
    with open(sys.argv[1]) as fh:
        child_main(json.load(fh))
