"""Entry point behind ./check — see DESIGN.md §2.5.

  ./check C06 [--tier quick|thorough]      run the check (corpus replay, enumerations, Hypothesis shards)
  ./check C06 --replay <file.json>         run one saved case, without Hypothesis
  ./check C06 --shard s/S --out <file>     (internal) one shard

Exit 0: held on everything explored. Exit 1: VIOLATION line(s). Exit 2: HARNESS-ERROR.
"""
import argparse
import glob
import importlib
import json
import os
import shutil
import signal
import subprocess
import sys
import time
import traceback

from . import common
from .common import ROOT, Stats, Ctx, Violation, HarnessError, Inconclusive


def load_mod(pid):
    return importlib.import_module("vf.props.%s" % pid.lower())


def shard_main(mod, tier, seed, shard, nshards, out):
    stats = Stats()
    found = {}
    exclude = common.known_sigs(mod.ID)
    err = None
    try:
        if hasattr(mod, "shard_setup"):
            mod.shard_setup(shard, nshards)
        for k, (part, gen, exhaustive) in enumerate(mod.enumerations(tier)):
            common.run_enum_part(mod, part, gen, shard, nshards, stats, found, exclude)
            if exhaustive and part not in stats.exhaustive_parts:
                stats.exhaustive_parts.append(part)
        for k, spec in enumerate(mod.strategies(tier)):
            part, strat, n = spec[:3]
            opts = spec[3] if len(spec) > 3 else {}
            per = n // nshards + (1 if shard < n % nshards else 0)
            if per <= 0:
                continue
            common.run_hyp_part(mod, part, strat, per, seed * 1000 + shard + 100003 * k, stats, found, exclude,
                                shrink=opts.get("shrink", True))
    except HarnessError as e:
        err = "HarnessError: %s" % e
    except BaseException as e:  # noqa
        err = "".join(traceback.format_exception(type(e), e, e.__traceback__))[-3000:]
    finally:
        if hasattr(mod, "shard_teardown"):
            try:
                mod.shard_teardown()
            except Exception:
                pass
    res = stats.dump()
    res["found"] = [{"sig": s, "msg": v.msg, "case": common.jsonable(c), "detail": common.jsonable(v.detail)}
                    for s, (c, v) in found.items()]
    res["error"] = err
    with open(out, "w") as f:
        json.dump(res, f)


def replay_one(mod, case, exclude=()):
    ctx = Ctx(exclude)
    try:
        v = common.exec_case(mod, case, ctx)
    except Inconclusive as e:
        return ctx, None, "inconclusive: %s" % e
    return ctx, v, None


def kill_group(p):
    try:
        os.killpg(p.pid, signal.SIGKILL)
    except (ProcessLookupError, PermissionError):
        pass


def main(argv=None):
    ap = argparse.ArgumentParser()
    ap.add_argument("pid")
    ap.add_argument("--tier", default=os.environ.get("VERIF_TIER") or "quick", choices=["quick", "thorough"])
    ap.add_argument("--replay")
    ap.add_argument("--shard")
    ap.add_argument("--out")
    ap.add_argument("--shards", type=int, default=None)
    ap.add_argument("--no-evidence", action="store_true")
    a = ap.parse_args(argv)
    pid = a.pid.upper()
    seed = int(os.environ.get("VERIF_SEED") or "1")
    t0 = time.time()
    try:
        mod = load_mod(pid)
    except Exception:
        traceback.print_exc()
        print("HARNESS-ERROR property=%s cannot import the property module or the code under test" % pid)
        return 2

    if a.shard:
        s, n = a.shard.split("/")
        shard_main(mod, a.tier, seed, int(s), int(n), a.out)
        return 0

    if a.replay:
        with open(a.replay) as f:
            data = json.load(f)
        case = data["case"] if isinstance(data, dict) and "case" in data and "sig" in data else data
        ctx, v, inc = replay_one(mod, case)
        if inc:
            print(inc)
            return 2
        if v is not None:
            print("%s: %s" % (v.sig, v.msg))
            print("VIOLATION property=%s replay=%s" % (pid, os.path.abspath(a.replay)))
            return 1
        print("no violation; labels=%s nontrivial=%s" % (sorted(ctx.labels), ctx.nontrivial))
        return 0

    # ------------------------------------------------------------------ full run
    scratch = os.environ["VF_SCRATCH"]
    known = common.load_known(pid)
    exclude = {e["signature"] for e in known if e.get("status") == "known"}
    stats = Stats()
    found = {}
    harness_errors = []

    # 1. corpus replay (seconds): seeds from the repository's tests and every shrunk failure ever found
    corpus_files = sorted(glob.glob(os.path.join(ROOT, "corpus", pid, "*.json")))
    if os.environ.get("VF_NO_CORPUS"):   # development aid: measure what the generated search finds on its own
        corpus_files = []
    for path in corpus_files:
        with open(path) as f:
            data = json.load(f)
        case = data["case"] if isinstance(data, dict) and "case" in data and "sig" in data else data
        ctx = Ctx(exclude)
        try:
            v = common.exec_case(mod, case, ctx)
        except Inconclusive:
            stats.inconclusive += 1
            v = None
        except Exception as e:
            harness_errors.append("corpus %s: %r" % (path, e))
            continue
        stats.add("corpus", case, ctx, ctx.extra.get("distinct_key"))
        if v is not None and v.sig not in found:
            found[v.sig] = (case, v.msg, v.detail)

    # known findings: does the listed minimal case still reproduce?
    for e in known:
        if e.get("status") != "known":
            continue
        reproduced = None
        if e.get("minimal_case") is not None:
            _, v, _ = replay_one(mod, e["minimal_case"])
            reproduced = v is not None and v.sig == e["signature"]
        if reproduced is False:
            print("note: known finding %s no longer reproduces from its minimal case" % e["signature"])
        else:
            print("KNOWN-FINDING: property=%s %s" % (pid, e["what_fails"]))

    # 2. shards
    nshards = a.shards or getattr(mod, "SHARDS", {}).get(a.tier) or int(os.environ.get("VF_SHARDS") or 14)
    procs = []
    for s in range(nshards):
        out = os.path.join(scratch, "shard-%d.json" % s)
        cmd = [sys.executable, "-B", "-m", "vf.main", pid, "--tier", a.tier, "--shard", "%d/%d" % (s, nshards),
               "--out", out]
        log = open(os.path.join(scratch, "shard-%d.log" % s), "w")
        p = subprocess.Popen(cmd, cwd=ROOT, stdout=log, stderr=subprocess.STDOUT, start_new_session=True)
        procs.append((s, p, out, log))
    guard = getattr(mod, "WALL_GUARD", {"quick": 900, "thorough": 6 * 3600})[a.tier]
    deadline = t0 + guard
    for s, p, out, log in procs:
        try:
            p.wait(timeout=max(1, deadline - time.time()))
        except subprocess.TimeoutExpired:
            harness_errors.append("shard %d hit the wall-clock guard of %ds (inconclusive)" % (s, guard))
        kill_group(p)
        p.wait()
        log.close()
        if os.path.exists(out):
            with open(out) as f:
                r = json.load(f)
            stats.evaluations += r["evaluations"]
            stats.nt.update(r["nt"])
            for k, v in r["labels"].items():
                stats.labels[k] = stats.labels.get(k, 0) + v
            for k, v in r["parts"].items():
                d = stats.parts.setdefault(k, {"evaluations": 0, "nontrivial": 0})
                d["evaluations"] += v["evaluations"]
                d["nontrivial"] += v["nontrivial"]
            stats.excluded += r["excluded"]
            for k, v in r["excluded_sigs"].items():
                stats.excluded_sigs[k] = stats.excluded_sigs.get(k, 0) + v
            stats.inconclusive += r["inconclusive"]
            if len(stats.samples) < 2:
                stats.samples.extend(r["samples"][:1])
            if len(stats.nt_samples) < 4:
                stats.nt_samples.extend(r["nt_samples"][:1])
            for p_ in r["exhaustive_parts"]:
                if p_ not in stats.exhaustive_parts:
                    stats.exhaustive_parts.append(p_)
            for fnd in r["found"]:
                if fnd["sig"] not in found:
                    found[fnd["sig"]] = (fnd["case"], fnd["msg"], fnd.get("detail"))
            if r["error"]:
                harness_errors.append("shard %d: %s" % (s, r["error"]))
        elif not any(h.startswith("shard %d " % s) for h in harness_errors):
            try:
                tail = open(os.path.join(scratch, "shard-%d.log" % s)).read()[-2000:]
            except OSError:
                tail = ""
            harness_errors.append("shard %d produced no result (exit %s): %s" % (s, p.returncode, tail))

    # 3. generator floors (a silent collapse of coverage must not pass as success)
    floor_report = {}
    for label, (frac, denom) in getattr(mod, "FLOORS", {}).items():
        d = stats.labels.get(denom, 0) if denom else stats.evaluations
        n = stats.labels.get(label, 0)
        floor_report[label] = {"count": n, "of": d, "floor": frac}
        if d >= 200 and n < frac * d:
            harness_errors.append("generator degenerate: label %r %d/%d below floor %.3f" % (label, n, d, frac))

    if stats.inconclusive > 0.2 * max(1, stats.evaluations + stats.inconclusive):
        harness_errors.append("%d of %d cases were inconclusive (harness guards hit): the run does not support a verdict"
                              % (stats.inconclusive, stats.evaluations + stats.inconclusive))

    # 4. verdict, replay files, evidence
    new = {s: x for s, x in found.items() if s not in exclude}
    replay_dir = os.path.join(ROOT, "replays", pid)
    if os.path.isdir(replay_dir):   # replay files of earlier runs belong to other trees/seeds
        for old_file in glob.glob(os.path.join(replay_dir, "*-seed%d.json" % seed)):
            try:
                os.remove(old_file)
            except OSError:
                pass
    lines = []
    for sig, (case, msg, detail) in sorted(new.items()):
        os.makedirs(replay_dir, exist_ok=True)
        path = os.path.join(replay_dir, "%s-seed%d.json" % (common.slug(sig), seed))
        with open(path, "w") as f:
            json.dump({"property": pid, "sig": sig, "message": msg, "detail": detail, "case": case, "seed": seed,
                       "tier": a.tier}, f, indent=1, sort_keys=True, default=repr)
        print("  %s: %s" % (sig, msg))
        lines.append("VIOLATION property=%s replay=%s" % (pid, path))

    wall = time.time() - t0
    if not a.no_evidence:
        samples = (stats.nt_samples + stats.samples)[:5]
        for sig, (case, msg, detail) in list(new.items())[:2]:
            samples.append({"violating_case": case, "sig": sig})
        ev = {
            "property_id": pid, "tier": a.tier, "seed": seed, "level": mod.LEVEL,
            "coverage": {
                "evaluations": stats.evaluations,
                "distinct_nontrivial": len(stats.nt),
                "rule": mod.RULE,
                "samples": common.jsonable(samples),
                "label_histogram": dict(sorted(stats.labels.items())),
                "parts": stats.parts,
                "floors": floor_report,
                "excluded_by_known_finding": stats.excluded,
                "excluded_signatures": stats.excluded_sigs,
                "inconclusive": stats.inconclusive,
                "exhaustive": False,
                "exhaustive_subdomains": stats.exhaustive_parts,
                "explanation": getattr(mod, "EXPLANATION", ""),
                "corpus_cases": len(corpus_files),
                "shards": nshards,
            },
            "assumptions": list(getattr(mod, "ASSUMPTIONS", [])),
            "wall_s": round(wall, 2),
            "violations": len(new),
        }
        problems = validate_evidence(ev)
        if problems and not new and not harness_errors:
            harness_errors.append("evidence would not validate: %s" % problems)
        os.makedirs(os.path.join(ROOT, "evidence"), exist_ok=True)
        with open(os.path.join(ROOT, "evidence", "%s.json" % pid), "w") as f:
            json.dump(ev, f, indent=1, sort_keys=True)

    print("%s tier=%s seed=%d evaluations=%d distinct_nontrivial=%d excluded=%d inconclusive=%d new_signatures=%d wall=%.1fs"
          % (pid, a.tier, seed, stats.evaluations, len(stats.nt), stats.excluded, stats.inconclusive, len(new), wall))
    for h in harness_errors[:3]:
        print("HARNESS-ERROR property=%s %s" % (pid, h))
    if len(harness_errors) > 3:
        print("HARNESS-ERROR property=%s ... and %d more" % (pid, len(harness_errors) - 3))
    for l in lines:
        print(l)
    if lines:
        return 1
    if harness_errors:
        return 2
    return 0


def validate_evidence(ev):
    """Minimal structural check of what EVIDENCE.schema.json requires for exploration-style levels."""
    out = []
    for k in ("property_id", "tier", "seed", "level", "coverage", "wall_s"):
        if k not in ev:
            out.append("missing %s" % k)
    c = ev.get("coverage", {})
    if c.get("evaluations", 0) < 1:
        out.append("evaluations < 1")
    if c.get("distinct_nontrivial", 0) < 2:
        out.append("distinct_nontrivial < 2")
    if not isinstance(c.get("rule"), str):
        out.append("rule")
    if not c.get("samples"):
        out.append("samples empty")
    return out


if __name__ == "__main__":
    sys.exit(main())
