"""Common plumbing: cases as data, verdicts, fuel, stats, Hypothesis driver, evidence.

Every property module (vf/props/cNN.py) exposes

    ID, TITLE, LEVEL, RULE, ASSUMPTIONS
    strategies(tier)   -> [(part_name, hypothesis strategy of JSON-able cases, total examples)]
    enumerations(tier) -> [(part_name, zero-argument callable returning an iterator of cases, exhaustive: bool)]
    run_case(case, ctx)   raises Violation, or returns; sets ctx.labels / ctx.nontrivial
    FLOORS             -> {label: (min_fraction, denominator_label_or_None)}

All random choices are made by Hypothesis under a seed derived from VERIF_SEED.
"""
import hashlib
import json
import os
import sys
import time
import itertools
import traceback

ROOT = os.path.dirname(os.path.dirname(os.path.abspath(__file__)))
REPO = os.environ.get("WPU_REPO", "/repo")


class Violation(Exception):
    """The code under test broke the property (signature ~ root cause)."""

    def __init__(self, sig, msg, detail=None):
        super().__init__("%s: %s" % (sig, msg))
        self.sig = sig
        self.msg = msg
        self.detail = detail


class HarnessError(Exception):
    """The harness (not the code under test) is broken: exit status 2, never a VIOLATION."""


class Inconclusive(Exception):
    """A guard of the harness was hit (step budget, wall clock): counted, never a violation."""


class OutOfFuel(BaseException):
    pass


def fuel(fn, n=60000):
    """Run fn() counting executed source lines; more than n lines -> OutOfFuel.

    n is at least 1000x what a legitimate call on the generated sizes needs, so OutOfFuel
    is the executable form of 'does not terminate'. No clock involved.
    """
    c = [0]

    def tr(frame, ev, arg):
        if ev == "line":
            c[0] += 1
            if c[0] > n:
                raise OutOfFuel()
        return tr

    old = sys.gettrace()
    sys.settrace(tr)
    try:
        return fn()
    finally:
        sys.settrace(old)


class FuelSession:
    """Line-count fuel installed once per case (sys.settrace is expensive to switch on and off in 3.12).

    Only frames of the code under test (files below `prefix`) are line-traced; reset() starts a new allowance,
    and exceeding `limit` lines before the next reset raises OutOfFuel inside the code under test.
    """

    def __init__(self, limit=40000, prefix=None):
        self.limit = limit
        self.prefix = prefix or os.path.join(REPO, "windpyutils")
        self.n = 0
        self.old = None

    def _global(self, frame, ev, arg):
        if frame.f_code.co_filename.startswith(self.prefix):
            return self._local
        return None

    def _local(self, frame, ev, arg):
        if ev == "line":
            self.n += 1
            if self.n > self.limit:
                self.n = 0
                raise OutOfFuel()
        return self._local

    def reset(self):
        self.n = 0

    def __enter__(self):
        self.old = sys.gettrace()
        sys.settrace(self._global)
        return self

    def __exit__(self, *a):
        sys.settrace(self.old)
        return False


def codes(min_size=0, max_size=40, bits=24):
    """Cheap Hypothesis source for operation histories: one integer per operation, decoded by the property module
    (generation costs ~0.1 ms per drawn integer, so one integer per operation keeps generation as cheap as running)."""
    from hypothesis import strategies as st
    return st.lists(st.integers(0, 2 ** bits - 1), min_size=min_size, max_size=max_size)


def take(it, n):
    """At most n items of an iterator (so an over-long or endless iteration is seen, not waited for)."""
    return list(itertools.islice(iter(it), n))


class Ctx:
    """Per-case context handed to run_case."""

    def __init__(self, exclude=()):
        self.exclude = set(exclude)
        self.labels = set()
        self.nontrivial = False
        self.excluded = 0
        self.excluded_sigs = set()
        self.extra = {}

    def label(self, *names):
        self.labels.update(names)

    def fail(self, sig, msg, detail=None):
        """Report a violation. Returns (instead of raising) only when sig is a listed known finding,
        in which case the caller skips the sub-check and carries on."""
        if sig in self.exclude:
            self.excluded += 1
            self.excluded_sigs.add(sig)
            return
        raise Violation(sig, msg, detail)

    def need(self, cond, sig, msg, detail=None):
        if not cond:
            self.fail(sig, msg() if callable(msg) else msg, detail)
            return False
        return True


def canon(case):
    return json.dumps(case, sort_keys=True, separators=(",", ":"), default=repr)


def case_hash(case):
    return hashlib.blake2b(canon(case).encode("utf-8", "surrogatepass"), digest_size=8).hexdigest()


class Stats:
    def __init__(self):
        self.evaluations = 0
        self.nt = set()
        self.labels = {}
        self.parts = {}
        self.samples = []
        self.nt_samples = []
        self.excluded = 0
        self.excluded_sigs = {}
        self.inconclusive = 0
        self.exhaustive_parts = []

    def add(self, part, case, ctx, distinct_key=None):
        self.evaluations += 1
        p = self.parts.setdefault(part, {"evaluations": 0, "nontrivial": 0})
        p["evaluations"] += 1
        for l in ctx.labels:
            self.labels[l] = self.labels.get(l, 0) + 1
        if ctx.excluded:
            self.excluded += 1
            for s in ctx.excluded_sigs:
                self.excluded_sigs[s] = self.excluded_sigs.get(s, 0) + 1
        if ctx.nontrivial:
            p["nontrivial"] += 1
            h = distinct_key if distinct_key is not None else case_hash(case)
            if h not in self.nt:
                self.nt.add(h)
                if len(self.nt_samples) < 3:
                    self.nt_samples.append(case)
        elif len(self.samples) < 1:
            self.samples.append(case)

    def dump(self):
        return {"evaluations": self.evaluations, "nt": sorted(self.nt), "labels": self.labels, "parts": self.parts,
                "samples": self.samples, "nt_samples": self.nt_samples, "excluded": self.excluded,
                "excluded_sigs": self.excluded_sigs, "inconclusive": self.inconclusive,
                "exhaustive_parts": self.exhaustive_parts}


def slug(s):
    return "".join(ch if ch.isalnum() else "-" for ch in s).strip("-")[:80]


# ---------------------------------------------------------------------------------------------
# known findings
# ---------------------------------------------------------------------------------------------

def load_known(pid):
    path = os.path.join(ROOT, "known_findings.json")
    if not os.path.exists(path):
        return []
    with open(path) as f:
        data = json.load(f)
    return [e for e in data.get("findings", []) if e.get("property") == pid]


def known_sigs(pid):
    return {e["signature"] for e in load_known(pid) if e.get("status") == "known"}


# ---------------------------------------------------------------------------------------------
# running one case safely
# ---------------------------------------------------------------------------------------------

def exec_case(mod, case, ctx):
    """Returns None, or a Violation. Anything else escaping run_case is a harness error, except that
    property modules convert unexpected exceptions of the code under test into Violations themselves."""
    limit = getattr(mod, "CASE_FUEL", 3000000)
    if callable(limit):
        limit = limit(case)     # a module may scale the budget with the size of the case
    try:
        if limit:
            # backstop: a whole case may execute at most `limit` source lines of the code under test
            # (>= 100x the most expensive legitimate case); modules install tighter per-operation sessions themselves
            with FuelSession(limit):
                mod.run_case(case, ctx)
        else:
            mod.run_case(case, ctx)
    except Violation as v:
        return v
    except OutOfFuel:
        return Violation("%s/non-terminating" % mod.ID, "the case did not terminate within its fuel (line-count budget, no clock)")
    return None


def hyp_settings(n, shrink=True):
    from hypothesis import settings, Phase, HealthCheck, Verbosity
    return settings(max_examples=max(1, n), deadline=None, database=None, derandomize=False,
                    report_multiple_bugs=False, suppress_health_check=list(HealthCheck),
                    phases=[Phase.generate, Phase.shrink] if shrink else [Phase.generate],
                    verbosity=Verbosity.quiet, print_blob=False)


def _minimised(mod, case, v):
    """modules whose cases are expensive (scheduler runs) minimise on their own (ddmin) instead of Hypothesis' shrinker"""
    hook = getattr(mod, "minimize", None)
    if hook is None:
        return case
    try:
        return hook(case, v.sig)
    except Exception:  # noqa: minimisation is best effort, the unminimised case is still a valid replay
        return case


def run_hyp_part(mod, part, strat, n, seedval, stats, found, exclude, shrink=True, max_rounds=6):
    """Collect-then-shrink: a violation whose signature is known or already recorded does not stop the
    search; every new signature is shrunk on its own and recorded in found[sig] = (case, Violation)."""
    from hypothesis import given, seed
    remaining = n
    rounds = 0
    while remaining > 0 and rounds < max_rounds:
        state = {"target": None, "last": None, "count": 0}

        def body(case):
            state["count"] += 1
            ctx = Ctx(exclude)
            v = None
            try:
                v = exec_case(mod, case, ctx)
            except Inconclusive:
                stats.inconclusive += 1
                return
            finally:
                stats.add(part, case, ctx, ctx.extra.get("distinct_key"))
            if v is None:
                return
            if v.sig in found:
                return
            if state["target"] is None:
                state["target"] = v.sig
            if v.sig != state["target"]:
                return
            state["last"] = (case, v)
            raise v

        test = seed(seedval + 7919 * rounds)(hyp_settings(remaining, shrink and getattr(mod, "HYP_SHRINK", True))(given(strat)(body)))
        try:
            test()
            break
        except BaseException as e:  # noqa
            # a Violation, or Hypothesis' Flaky/FlakyFailure wrapper when the failure depends on state that outlives a case
            # (e.g. class-level caches of the code under test): the violation that was observed is recorded either way
            if state["last"] is None or isinstance(e, (KeyboardInterrupt, SystemExit)):
                raise
            case, v = state["last"]
            if not isinstance(e, Violation):
                v = Violation(v.sig, v.msg + " [not reproducible from a fresh state on every replay: depends on state kept between cases]", v.detail)
            found[v.sig] = (_minimised(mod, case, v), v)
            remaining -= state["count"]
            rounds += 1
    return


def run_enum_part(mod, part, gen, shard, nshards, stats, found, exclude, limit_per_sig=1):
    for i, case in enumerate(gen()):
        if i % nshards != shard:
            continue
        ctx = Ctx(exclude)
        try:
            v = exec_case(mod, case, ctx)
        except Inconclusive:
            stats.inconclusive += 1
            v = None
        stats.add(part, case, ctx, ctx.extra.get("distinct_key"))
        if v is not None and v.sig not in found:
            found[v.sig] = (_minimised(mod, case, v), v)


def jsonable(x):
    try:
        json.dumps(x)
        return x
    except (TypeError, ValueError):
        return json.loads(json.dumps(x, default=repr))
