"""Scheduler-aware stand-ins for the synchronisation primitives the code under test uses (DESIGN.md §3 E2 table).

Each operation is one atomic step preceded by a yield point; a blocking operation registers a wake-up predicate with the
scheduler instead of blocking the OS thread. All stand-ins are shared across fork copies (__deepcopy__ is identity).
"""
import queue as pyqueue

from .core import S


class Shared:
    def __deepcopy__(self, memo):
        return self

    def __copy__(self):
        return self


def _timed_wait(s, cond, what, block, timeout):
    """returns True when cond() holds; False on (modelled) timeout / non-blocking failure"""
    if cond():
        return True
    if not block:
        return False
    if timeout is None:
        s.yield_point(cond, what=what + ":blocked")
        return True
    # A timeout may fire before any other task has moved (the other threads may simply not be scheduled for that long): the
    # waiting task stays runnable, so the base policies let it continue at once and the timeout fires "early". To keep retry
    # loops (`while not ev.wait(0.1)`) from spinning in the model, the next timed wait of a task whose timeout has just fired
    # early lets at least one other step pass first.
    t = s.me()
    mark = s.steps
    if t is not None and t.early_ok:
        s.yield_point(lambda: True, what=what + ":timed", timed=True)
    else:
        s.yield_point(lambda: cond() or s.steps > mark, what=what + ":timed", timed=True)
    ok = cond()
    if t is not None:
        t.early_ok = not (not ok and s.steps == mark + 1)
    return ok


class SimQueue(Shared):
    """manager queue: a linearizable server-side queue.Queue"""

    def __init__(self, maxsize=0, name="queue"):
        self.maxsize = maxsize if (maxsize and maxsize > 0) else 0
        self.items = []
        self.name = name
        self.puts = 0

    def _full(self):
        return self.maxsize > 0 and len(self.items) >= self.maxsize

    def put(self, x, block=True, timeout=None):
        s = S()
        s.yield_point(what=self.name + ".put")
        if not _timed_wait(s, lambda: not self._full(), self.name + ".put", block, timeout):
            raise pyqueue.Full
        self.items.append(x)
        self.puts += 1

    def put_nowait(self, x):
        return self.put(x, block=False)

    def get(self, block=True, timeout=None):
        s = S()
        s.yield_point(what=self.name + ".get")
        if not _timed_wait(s, lambda: bool(self.items), self.name + ".get", block, timeout):
            raise pyqueue.Empty
        return self.items.pop(0)

    def get_nowait(self):
        return self.get(block=False)

    def qsize(self):
        S().yield_point(what=self.name + ".qsize")
        return len(self.items)

    def empty(self):
        S().yield_point(what=self.name + ".empty")
        return not self.items

    def full(self):
        S().yield_point(what=self.name + ".full")
        return self._full()

    def pending(self):
        """harness inspection: everything still held"""
        return list(self.items)


class _Deliver:
    """virtual scheduler step: the feeder thread of one producer process moves its oldest in-flight item to the pipe"""

    def __init__(self, q, proc):
        self.q, self.proc = q, proc
        self.name = "deliver:%s:%s" % (q.name, proc)

    def enabled(self):
        # pipe_cap models the capacity of the OS pipe in items (large payloads: only a few fit until the reader takes them)
        return bool(self.q.inflight.get(self.proc)) and (self.q.pipe_cap is None or len(self.q.items) < self.q.pipe_cap)

    def step(self):
        self.q.items.append(self.q.inflight[self.proc].pop(0))
        S().trace.append((-1, self.name))


class SimPipeQueue(Shared):
    """multiprocessing.Queue (pipe + feeder thread per producer process): per-producer FIFO in flight, delivery is a
    scheduler-controlled step, so items of different producers arrive in any order and get(False) may raise Empty while
    items are in flight; bounded variant counts in-flight + delivered."""

    def __init__(self, maxsize=0, name="pipe", pipe_cap=None):
        self.maxsize = maxsize if (maxsize and maxsize > 0) else 0
        self.items = []
        self.inflight = {}
        self.name = name
        self.pipe_cap = pipe_cap

    def _count(self):
        return len(self.items) + sum(len(v) for v in self.inflight.values())

    def put(self, x, block=True, timeout=None):
        s = S()
        s.yield_point(what=self.name + ".put")
        if self.maxsize and not _timed_wait(s, lambda: self._count() < self.maxsize, self.name + ".put", block, timeout):
            raise pyqueue.Full
        proc = s.me().proc
        if proc not in self.inflight:
            self.inflight[proc] = []
            s.virtual.append(_Deliver(self, proc))
        self.inflight[proc].append(x)

    def put_nowait(self, x):
        return self.put(x, block=False)

    def get(self, block=True, timeout=None):
        s = S()
        s.yield_point(what=self.name + ".get")
        if not _timed_wait(s, lambda: bool(self.items), self.name + ".get", block, timeout):
            raise pyqueue.Empty
        return self.items.pop(0)

    def get_nowait(self):
        return self.get(block=False)

    def qsize(self):
        S().yield_point(what=self.name + ".qsize")
        return self._count()

    def empty(self):
        S().yield_point(what=self.name + ".empty")
        return not self.items

    def pending(self):
        out = list(self.items)
        for v in self.inflight.values():
            out.extend(v)
        return out

    def close(self):
        pass

    def join_thread(self):
        pass

    def cancel_join_thread(self):
        pass


class SimLock(Shared):
    """multiprocessing / threading Lock: not re-entrant (a second acquire by the owner blocks, as in reality)"""
    reentrant = False

    def __init__(self, name="lock"):
        self.owner = None
        self.depth = 0
        self.name = name

    def acquire(self, block=True, timeout=None):
        s = S()
        s.yield_point(what=self.name + ".acquire")
        me = s.me()

        def free():
            return self.owner is None or (self.reentrant and self.owner is me)
        if not _timed_wait(s, free, self.name + ".acquire", block, timeout):
            return False
        self.owner = me
        self.depth += 1
        return True

    def release(self):
        s = S()
        if s is not None and s.me() is not None and not s.aborted:
            s.yield_point(what=self.name + ".release")
        if self.depth > 0:
            self.depth -= 1
        if self.depth == 0:
            self.owner = None

    def locked(self):
        return self.owner is not None

    def __enter__(self):
        return self.acquire()

    def __exit__(self, *a):
        self.release()


class SimRLock(SimLock):
    reentrant = True


class SimEvent(Shared):
    def __init__(self, name="event"):
        self.flag = False
        self.name = name

    def set(self):
        S().yield_point(what=self.name + ".set")
        self.flag = True

    def clear(self):
        S().yield_point(what=self.name + ".clear")
        self.flag = False

    def is_set(self):
        S().yield_point(what=self.name + ".is_set")
        return self.flag

    def wait(self, timeout=None):
        s = S()
        s.yield_point(what=self.name + ".wait")
        return _timed_wait(s, lambda: self.flag, self.name + ".wait", True, timeout)


class SimValue(Shared):
    """multiprocessing.Value: every access is one step (get_lock() is an RLock)"""

    def __init__(self, typecode=None, value=0, lock=True):
        self._v = value
        self._lock = SimRLock("value-lock")

    @property
    def value(self):
        S().yield_point(what="value.get")
        return self._v

    @value.setter
    def value(self, v):
        S().yield_point(what="value.set")
        self._v = v

    def get_lock(self):
        return self._lock


class SimList(Shared):
    """manager list proxy: every proxy operation is one request to the manager, hence atomic"""

    def __init__(self, init=()):
        self.l = list(init)

    def _y(self, w):
        s = S()
        if s is not None and s.me() is not None:
            s.yield_point(what="list." + w)

    def append(self, x):
        self._y("append")
        self.l.append(x)

    def extend(self, x):
        x = list(x)
        self._y("extend")
        self.l.extend(x)

    def remove(self, x):
        self._y("remove")
        self.l.remove(x)

    def __len__(self):
        self._y("len")
        return len(self.l)

    def __getitem__(self, i):
        self._y("get")
        r = self.l[i]
        return list(r) if isinstance(i, slice) else r

    def __setitem__(self, i, v):
        if isinstance(i, slice):
            v = list(v)
        self._y("set")
        self.l[i] = v

    def __delitem__(self, i):
        self._y("del")
        del self.l[i]

    def __iter__(self):
        self._y("iter")
        return iter(list(self.l))

    def __contains__(self, x):
        self._y("contains")
        return x in self.l


class SimManager(Shared):
    """context.Manager(): hands out manager queues / lists and remembers them for end-of-call inspections"""

    def __init__(self, registry=None):
        self.queues = []
        self.lists = []
        self.registry = registry
        self.entered = 0
        self.exited = 0

    def Queue(self, maxsize=0):
        q = SimQueue(maxsize, name="mq%d" % len(self.queues))
        self.queues.append(q)
        if self.registry is not None:
            self.registry.append(q)
        return q

    def list(self, init=()):
        l = SimList(init)
        self.lists.append(l)
        return l

    def __enter__(self):
        self.entered += 1
        return self

    def __exit__(self, *a):
        self.exited += 1

    def start(self):
        pass

    def shutdown(self):
        self.exited += 1


class SimContext:
    """stand-in for a multiprocessing context (public `context` argument of the pools and workers)"""

    def __init__(self):
        self.registry = []   # every queue handed out (manager queues and pipe queues)
        self.managers = []
        self.events = []

    def Manager(self):
        m = SimManager(self.registry)
        self.managers.append(m)
        return m

    def Queue(self, maxsize=0):
        q = SimPipeQueue(maxsize, name="pq%d" % len(self.registry))
        self.registry.append(q)
        return q

    def SimpleQueue(self):
        return self.Queue()

    def Lock(self):
        return SimLock("ctx-lock")

    def RLock(self):
        return SimRLock("ctx-rlock")

    def Event(self):
        e = SimEvent("ctx-event%d" % len(self.events))
        self.events.append(e)
        return e

    def Value(self, typecode, value=0, lock=True):
        return SimValue(typecode, value)

    def get_context(self, *a):
        return self
