"""Runs the real FunctorPool / FactoryFunctorPool under the harness-owned scheduler and analyses the run (C01-C04)."""
import collections.abc as collections_abc
import copy
import math
import sys

import windpyutils.buffers as wbuf
import windpyutils.parallel.own_proc_pools as opp

from . import core, dispatch, prims, schedules
from .core import S, Sched
from ..common import HarnessError, Inconclusive

SUT_FILES = (opp.__file__, wbuf.__file__)


class SharedLog(prims.Shared, list):
    pass


# 'special' payloads (call["vals"]): items that are None, falsy or empty containers; their result is the item itself, so that
# None and falsy *results* occur as well (container items are mapped to a tagged repr). Positions are not recoverable from such items: only the value oracle is applied.
SPECIAL = [None, 0, "", [], False, (), 0.0, "a", [None], {}, None]


def f(x):
    if type(x) is int:
        return [x, 2 * x + 1]
    if isinstance(x, (list, tuple, dict)):
        return ("container", repr(x))     # an item that is itself a list must reach the functor as one item
    return x


class IntSeq(collections_abc.Sequence):
    def __init__(self, items):
        self._items = list(items)

    def __len__(self):
        return len(self._items)

    def __getitem__(self, i):
        if not isinstance(i, int):
            raise TypeError("indices must be integers")
        return self._items[i]


def special_items(call):
    return [copy.deepcopy(SPECIAL[v % len(SPECIAL)]) for v in call["vals"]]


class SimWorker(opp.BaseFunctorWorker):
    _uid = [0]

    def __init__(self, ctx, quota, log, cfg):
        opp.BaseFunctorWorker.__init__(self, ctx, math.inf if quota is None else quota)
        SimWorker._uid[0] += 1
        self.uid = SimWorker._uid[0]
        self.log = log
        self.cfg = cfg

    def begin(self):
        s = S()
        self.log.append(("begin", self.uid, s.me().index))
        d = self.cfg.get("begin_delay", 0)
        if d:
            s.sleep(d, "begin-delay")
        self.log.append(("begin-done", self.uid))

    def end(self):
        d = self.cfg.get("end_delay", 0)
        if d:
            S().sleep(d, "end-delay")
        self.log.append(("end", self.uid))

    def __call__(self, x):
        self.log.append(("item", self.uid, x))
        slow = self.cfg.get("slow")
        if slow and type(x) is int and x % 1000 in slow:
            S().sleep(slow[x % 1000], "slow-item")
        return f(x)


class Factory(opp.FunctorWorkerFactory):
    def __init__(self, ctx, quota, log, cfg):
        self.ctx, self.quota, self.log, self.cfg = ctx, quota, log, cfg
        self.created = []

    def create(self):
        w = SimWorker(self.ctx, self.quota, self.log, dict(self.cfg, begin_delay=self.cfg.get("begin_delay", 0) if not self.created else self.cfg.get("repl_begin_delay", 0)))
        self.created.append(w)
        return w


_TRACED = {}


def traced_class(cls):
    if cls not in _TRACED:
        def __getattribute__(self, name):
            if not name.startswith("__"):
                s = S()
                if s is not None:
                    s.yield_point(shared=True)
            return object.__getattribute__(self, name)

        def __setattr__(self, name, value):
            s = S()
            if s is not None:
                s.yield_point(shared=True)
            object.__setattr__(self, name, value)
        _TRACED[cls] = type("Traced" + cls.__name__, (cls,), {"__getattribute__": __getattribute__, "__setattr__": __setattr__})
    return _TRACED[cls]


class RecQueue(prims.SimQueue):
    """manager queue that also remembers who put what (for arrival-order and per-worker chunk counts)"""

    def __init__(self, maxsize=0, name="queue"):
        super().__init__(maxsize, name)
        self.history = []

    def put(self, x, block=True, timeout=None):
        super().put(x, block, timeout)
        self.history.append((S().me().index, x))


class RecManager(prims.SimManager):
    def Queue(self, maxsize=0):
        q = RecQueue(maxsize, name="mq%d" % len(self.queues))
        self.queues.append(q)
        if self.registry is not None:
            self.registry.append(q)
        return q


class RecContext(prims.SimContext):
    def Manager(self):
        m = RecManager(self.registry)
        self.managers.append(m)
        return m


def parse_wq(v):
    if isinstance(v, str):
        return float(v)
    return v


def make_input(call, ci):
    n = call["n"]
    items = special_items(call) if "vals" in call else [ci * 1000 + i for i in range(n)]
    kind = call.get("input", "list")
    if kind == "list" or kind == "range" and "vals" in call:
        return items
    if kind == "tuple":          # other finite iterables a caller may pass: a tuple, a plain iterator, a dict's key view
        return tuple(items)
    if kind == "iter":
        return iter(items)
    if kind == "deque":          # a Sequence by registration that cannot be sliced
        import collections
        return collections.deque(items)
    if kind == "intseq":         # a user-defined Sequence whose __getitem__ takes integers only
        return IntSeq(items)
    if kind == "keys" and "vals" not in call:
        return dict.fromkeys(items).keys()
    if kind == "range":
        return range(ci * 1000, ci * 1000 + n)
    delays = call.get("delays") or [0]
    tail = call.get("tail", 0)

    def gen():
        s = S()
        for i, x in enumerate(items):
            d = delays[i % len(delays)]
            if d:
                s.sleep(d, "input-delay")
            yield x
        if tail:
            s.sleep(tail, "input-tail-delay")
    return gen()


class Result:
    def __init__(self):
        self.outputs = []
        self.leftovers = []      # per call: list of (queue name, item) still holding payload after the call
        self.consumer_exc = None
        self.calls_done = 0
        self.left_context = False
        self.ready_checks = []   # (call index, [uids not begin-done])
        self.log = SharedLog()
        self.outcome = None
        self.sched = None
        self.ctx = None
        self.pool = None
        self.factory = None
        self.task_excs = []
        self.too_many = False
        self.alive_at_exit = []


def is_result_chunk(item):
    return isinstance(item, (tuple, list)) and len(item) == 2 and isinstance(item[1], list) and \
        all(isinstance(v, list) and len(v) == 2 for v in item[1])


def payload_items(q):
    out = []
    for it in q.pending():
        if it is None:
            continue
        if isinstance(it, (tuple, list)) and len(it) == 2 and isinstance(it[1], list):
            out.append(it)
    return out


def run_pool_case(case, max_steps=None):
    dispatch.install()
    spec = case.get("sched") or {"kind": "dev"}
    calls = case["calls"]
    total_items = sum(c["n"] for c in calls)
    if max_steps is None:
        max_steps = 30000 + 4000 * total_items + 3000 * len(calls) * max(1, case["workers"])
    gran_attr = spec.get("gran", "line") == "attr"
    sched = Sched(schedules.make_chooser(spec), SUT_FILES, max_steps=max_steps * (2 if gran_attr else 1))
    res = Result()
    res.sched = sched
    cfg = {"begin_delay": case.get("begin_delay", 0), "slow": {int(k): v for k, v in (case.get("slow") or {}).items()},
           "repl_begin_delay": case.get("repl_begin_delay", 0), "end_delay": case.get("end_delay", 0)}
    quota = case.get("quota")
    wq = parse_wq(case.get("wq", 1.0))
    rq = case.get("rq")
    cdelay = case.get("cdelay") or [0]
    ready_at = case.get("ready_at")
    ready_mid = case.get("ready_mid")    # [call index, k]: until_all_ready() is called after the k-th result of that call

    def consumer():
        ctx = RecContext()
        res.ctx = ctx
        try:
            if case["pool"] == "factory":
                fac = Factory(ctx, quota, res.log, cfg)
                res.factory = fac
                pool = opp.FactoryFunctorPool(case["workers"], fac, ctx, wq, rq, join_timeout=case.get("join_timeout"))
            else:
                pool = opp.FunctorPool([SimWorker(ctx, quota, res.log, cfg) for _ in range(case["workers"])], ctx, wq, rq,
                                       join_timeout=case.get("join_timeout"))
            res.pool = pool
            if gran_attr:
                # every read and write of an attribute of the pool object (the state the consumer, the sending thread and the
                # replace thread share) becomes a preemption point, also between two reads inside one source line
                pool.__class__ = traced_class(type(pool))
            with pool:
                checker = None
                rt = case.get("ready_thread")
                if rt:
                    # another thread of the consumer process asks until_all_ready() at generated moments while calls are running
                    # and workers are being replaced; judged for the workers registered at the moment of each call
                    def check_ready():
                        s = S()
                        s.sleep(rt.get("start", 0), "ready-thread-delay")
                        for _ in range(rt.get("reps", 1)):
                            registered = list(pool.procs)
                            pool.until_all_ready()
                            done = {e[1] for e in res.log if e[0] == "begin-done"}
                            res.ready_checks.append((-1, [p.uid for p in registered if p.uid not in done]))
                            s.sleep(rt.get("gap", 1), "ready-thread-gap")
                    import threading
                    checker = threading.Thread(target=check_ready)
                    checker.start()
                for ci, call in enumerate(calls):
                    if ready_at == ci:
                        pool.until_all_ready()
                        done = {e[1] for e in res.log if e[0] == "begin-done"}
                        res.ready_checks.append((ci, [p.uid for p in pool.procs if p.uid not in done]))
                    data = make_input(call, ci)
                    fn = pool.imap if call["mode"] == "o" else pool.imap_unordered
                    out = []
                    res.outputs.append(out)
                    k = 0
                    for x in fn(data, call.get("chunk", 1)):
                        out.append(x)
                        d = cdelay[k % len(cdelay)]
                        k += 1
                        if ready_mid and ready_mid[0] == ci and ready_mid[1] == k:
                            # workers are being replaced while this runs: the statement is checked for the workers that are
                            # registered in the pool at the moment of the call (a later replacement cannot be waited for)
                            registered = list(pool.procs)
                            pool.until_all_ready()
                            done = {e[1] for e in res.log if e[0] == "begin-done"}
                            res.ready_checks.append((ci, [p.uid for p in registered if p.uid not in done]))
                        if d:
                            S().sleep(d, "consumer-delay")
                        if len(out) > 3 * call["n"] + 10:
                            res.too_many = True
                            break
                    res.calls_done += 1
                    res.leftovers.append([(q.name, it) for q in ctx.registry for it in payload_items(q)])
                if checker is not None:
                    checker.join()
            res.left_context = True
            # the moment the pool context has been left: which worker processes (replaced ones included) are still running?
            res.alive_at_exit = [t.name for t in sched.tasks if t.kind == "process" and not t.done]
        except core.Abort:
            raise
        except BaseException as e:  # noqa
            res.consumer_exc = e

    with dispatch.Patch() as patch:
        patch.set(opp, "threading", dispatch.threading_shim())
        res.outcome = sched.run(consumer)
    for t in sched.tasks:
        if t.exc is not None and t is not sched.main_task:
            res.task_excs.append((t.name, t.exc))
    if sched.main_task.exc is not None and res.consumer_exc is None:
        res.consumer_exc = sched.main_task.exc
    if res.outcome in (("budget",), ("wall-guard",)) or (isinstance(res.outcome, tuple) and res.outcome[0] == "teardown-stuck"):
        raise Inconclusive("scheduler guard: %r after %d steps" % (res.outcome, sched.steps))
    return res


# ------------------------------------------------------------------------------------------ analysis

def expected_for(call, ci):
    if "vals" in call:
        return [f(x) for x in special_items(call)]
    return [f(ci * 1000 + i) for i in range(call["n"])]


def chunks_of(call, ci):
    items = [ci * 1000 + i for i in range(call["n"])]
    c = call.get("chunk", 1)
    return [items[i:i + c] for i in range(0, len(items), c)]


def describe_deadlock(res):
    info = res.outcome[1]
    parts = []
    for name, what, where in info:
        parts.append("%s blocked on %s in %s" % (name, what, "%s:%s" % where if where else "?"))
    return "; ".join(parts)


def deadlock_sig(res):
    info = res.outcome[1]
    main = [x for x in info if x[0] == "consumer"]
    if main:
        name, what, where = main[0]
        return "deadlock/consumer-in-%s/%s" % (where[0] if where else "?", (what or "?").split(":")[0])
    return "worker-left-running/%s" % "+".join(sorted({(x[1] or "?").split(":")[0] for x in info}))


def value_verdicts(case, res):
    """C01: values per completed call, leftovers, exceptions out of the consumer"""
    out = []
    name = "FactoryFunctorPool" if case["pool"] == "factory" else "FunctorPool"
    if res.consumer_exc is not None:
        e = res.consumer_exc
        out.append(("%s/consumer-exception-%s" % (name, type(e).__name__), "call %d raised %r" % (res.calls_done, e)))
    for tname, e in res.task_excs:
        out.append(("%s/task-exception-%s" % (name, type(e).__name__), "%s raised %r" % (tname, e)))
    if res.too_many:
        out.append(("%s/yields-more-than-input" % name, "a call yielded more than 3x its input length"))
    for ci in range(res.calls_done):
        call = case["calls"][ci]
        got = res.outputs[ci]
        exp = expected_for(call, ci)
        mode = "imap" if call["mode"] == "o" else "imap_unordered"
        if "vals" in call:
            same = got == exp if call["mode"] == "o" else sorted(map(repr, got)) == sorted(map(repr, exp))
            if not same:
                out.append(("%s/%s/wrong-results-for-none-or-falsy-items" % (name, mode), "call %d (n=%d chunk=%d) yielded %r, expected %r%s"
                            % (ci, call["n"], call.get("chunk", 1), short(got), short(exp), "" if call["mode"] == "o" else " (as a multiset)")))
        elif call["mode"] == "o":
            if got != exp:
                kind = classify_diff(got, exp, ci)
                out.append(("%s/%s/%s" % (name, mode, kind), "call %d (n=%d chunk=%d) yielded %r, expected %r" % (ci, call["n"], call.get("chunk", 1), short(got), short(exp))))
        else:
            if sorted(got) != sorted(exp):
                kind = classify_diff(got, exp, ci)
                out.append(("%s/%s/%s" % (name, mode, kind), "call %d yielded multiset %r, expected %r" % (ci, short(sorted(got)), short(exp))))
            else:
                pos = {tuple(v): i for i, v in enumerate(got)}
                for ch in chunks_of(call, ci):
                    idx = [pos[tuple(f(x))] for x in ch]
                    if idx != sorted(idx):
                        out.append(("%s/%s/order-inside-chunk-broken" % (name, mode), "call %d chunk %r came out in positions %r" % (ci, ch, idx)))
                        break
        if res.leftovers[ci]:
            out.append(("%s/%s/payload-left-in-queue-after-call" % (name, mode), "after call %d: %r" % (ci, short(res.leftovers[ci]))))
    # a call that can never complete although every input was processed and nothing is pending any more: its results were lost
    # or mis-indexed inside the pool (a pure liveness problem - everything yielded, consumer still waiting - is C02's verdict)
    if isinstance(res.outcome, tuple) and res.outcome[0] == "deadlock" and not res.left_context and res.calls_done < len(case["calls"]) \
            and len(res.outputs) > res.calls_done and res.ctx is not None and "vals" not in case["calls"][res.calls_done]:
        ci = res.calls_done
        call = case["calls"][ci]
        exp = expected_for(call, ci)
        got = res.outputs[ci]
        processed = {e[2] for e in res.log if e[0] == "item" and type(e[2]) is int and e[2] // 1000 == ci}
        pending = [it for q in res.ctx.registry for it in payload_items(q)]
        if len(processed) == call["n"] and not pending and sorted(map(tuple, got)) != sorted(map(tuple, exp)):
            mode = "imap" if call["mode"] == "o" else "imap_unordered"
            out.append(("%s/%s/results-lost-call-cannot-complete" % (name, mode),
                        "call %d: every input was processed and no result is pending, but only %r of %r were yielded and the consumer waits forever"
                        % (ci, short(got), short(exp))))
    return out


def classify_diff(got, exp, ci):
    gt = [tuple(x) if isinstance(x, list) else x for x in got]
    et = [tuple(x) for x in exp]
    foreign = [x for x in gt if not (isinstance(x, tuple) and len(x) == 2 and isinstance(x[0], int) and x[0] // 1000 == ci)]
    if foreign:
        return "result-of-another-call-or-invented"
    if len(set(gt)) < len(gt):
        return "duplicated-result"
    if set(gt) < set(et):
        return "lost-result"
    if sorted(gt) == sorted(et):
        return "reordered-result"
    return "wrong-result"


def liveness_verdicts(case, res):
    """C02: a deadlock before the consumer has left the pool context"""
    name = "FactoryFunctorPool" if case["pool"] == "factory" else "FunctorPool"
    if isinstance(res.outcome, tuple) and res.outcome[0] == "deadlock" and not res.left_context:
        return [("%s/%s" % (name, deadlock_sig(res)), "call %d of %d never finished: %s" % (res.calls_done, len(case["calls"]), describe_deadlock(res)))]
    return []


def lifecycle_verdicts(case, res):
    """C04: per worker begin, item*, end; until_all_ready; quota; none left running"""
    out = []
    name = "FactoryFunctorPool" if case["pool"] == "factory" else "FunctorPool"
    per = {}
    for e in res.log:
        per.setdefault(e[1], []).append(e[0])
    finished_run = res.outcome == "done"
    for uid, ev in per.items():
        core_ev = [x for x in ev if x != "begin-done"]
        ok = core_ev and core_ev[0] == "begin" and core_ev.count("begin") == 1 and core_ev.count("end") <= 1 and \
            all(x == "item" for x in core_ev[1:-1] if True) and (core_ev[-1] in ("end", "item", "begin"))
        if "end" in core_ev and core_ev[-1] != "end":
            ok = False
        if finished_run and core_ev.count("end") != 1:
            ok = False
        if not ok:
            out.append(("%s/worker-lifecycle-log-wrong" % name, "worker %d: %r" % (uid, ev[:12])))
            break
    for ci, missing in res.ready_checks:
        if missing:
            out.append(("%s/until_all_ready-returned-before-begin-completed" % name, "%s workers %r (registered in the pool when until_all_ready() was called) had not completed begin() when it returned"
                        % ("asked from another thread during the calls:" if ci < 0 else "around call %d:" % ci, missing)))
    quota = case.get("quota")
    if quota is not None and res.ctx is not None:
        counts = {}
        for q in res.ctx.registry:
            if not isinstance(q, RecQueue):
                continue
            for who, item in q.history:
                # a delivered result chunk: (index, [f(x), ...]) put by a worker process task
                if is_result_chunk(item) and res.sched.tasks[who].kind == "process":
                    counts[who] = counts.get(who, 0) + 1
        over = {w: c for w, c in counts.items() if c > quota}
        if over:
            out.append(("%s/quota-exceeded" % name, "tasks %r delivered more than %d chunks" % (over, quota)))
    if res.left_context and res.alive_at_exit and case.get("join_timeout") is None:
        out.append(("%s/worker-still-running-when-pool-context-left" % name,
                    "the pool context was left (no join_timeout) while %r had not finished (their end() had not completed)" % (res.alive_at_exit,)))
    if isinstance(res.outcome, tuple) and res.outcome[0] == "deadlock" and res.left_context and case.get("join_timeout") is None:
        # (with a join_timeout the statement does not promise that no worker is left behind: a stop order that could not be
        # placed within the timeout is given up)
        out.append(("%s/%s" % (name, deadlock_sig(res)), "the pool context was left but tasks are still running: %s" % describe_deadlock(res)))
    return out


def labels_for(case, res):
    labs = set()
    ctx = res.ctx
    if ctx is not None:
        per_call = {}
        for q in ctx.registry:
            if not isinstance(q, RecQueue):
                continue
            for who, item in q.history:
                if is_result_chunk(item) and item[1] and type(item[1][0]) is list and len(item[1][0]) == 2 and type(item[1][0][0]) is int:
                    per_call.setdefault(item[1][0][0] // 1000, []).append(item[0])
        for ci, idxs in per_call.items():
            if idxs != sorted(idxs):
                labs.add("out-of-order-arrival")
    tr = res.sched.trace
    if any(w == "thr-event.clear" for _, w in tr):
        labs.add("flow-control-paused")
    if any(c.get("input") == "gen" for c in case["calls"]):
        labs.add("lazy-input")
    if any(c.get("input") == "gen" and c.get("tail", 0) > 0 for c in case["calls"]):
        labs.add("late-stopiteration")
    if any(c["n"] == 0 for c in case["calls"]):
        labs.add("empty-input")
    if case.get("rq"):
        labs.add("bounded-results-queue")
    if res.factory is not None and len(res.factory.created) > case["workers"]:
        labs.add("worker-replaced")
    if case.get("quota") is not None:
        labs.add("quota")
    if len(case["calls"]) >= 2:
        labs.add("multi-call")
    if res.sched.recorded:
        labs.add("schedule-deviates-from-base")
    if isinstance(res.outcome, tuple) and res.outcome[0] == "deadlock":
        labs.add("deadlocked")
    return labs


def short(x, n=12):
    if isinstance(x, list) and len(x) > n:
        return x[:n] + ["...(%d)" % len(x)]
    return x
