"""E2 core: a harness-owned scheduler for real, unmodified concurrent code (DESIGN.md §3 E2).

Every logical thread of control runs in its own OS thread but only one of them holds the baton at any time. A task gives
the baton up at *yield points*: every operation on a stand-in primitive, every source line of the files under test
(sys.settrace) and explicit yields of harness-supplied iterators/functors. The scheduling decision is taken in the yielding
thread; OS threads are switched only when another task is chosen. The schedule is data (see schedules.py) and a run is a
deterministic function of (code, case, schedule).
"""
import sys
import threading

_ORIG = {}  # original Thread/BaseProcess methods (filled by dispatch.install)


class Abort(BaseException):
    """raised inside task threads to tear a run down"""


class Task:
    __slots__ = ("sched", "fn", "name", "proc", "sem", "done", "waiting", "timed", "exc", "thread", "blocked_on", "where",
                 "index", "kind", "started_by", "early_ok", "last_step")

    def __init__(self, sched, fn, name, proc, kind):
        self.sched, self.fn, self.name, self.proc, self.kind = sched, fn, name, proc, kind
        self.sem = threading.Semaphore(0)
        self.done = False
        self.waiting = None
        self.timed = False
        self.early_ok = True     # see prims._timed_wait
        self.last_step = 0       # the scheduler step at which this task was last given the processor
        self.exc = None
        self.blocked_on = None
        self.where = None
        self.index = len(sched.tasks)
        self.thread = threading.Thread(target=self._main, daemon=True, name="sim-" + name)

    def _main(self):
        s = self.sched
        self.sem.acquire()
        try:
            if s.aborted:
                return
            sys.settrace(s._tracer)
            self.fn()
        except Abort:
            pass
        except BaseException as e:  # noqa
            self.exc = e
        finally:
            sys.settrace(None)
            self.done = True
            self.waiting = None
            try:
                s._switch(self)
            except Abort:
                pass

    def __repr__(self):
        return "<task %s>" % self.name


class Sched:
    current = None  # the active scheduler of this process (one run at a time)

    def __init__(self, chooser, sut_files, max_steps=200000):
        self.tasks = []
        self.virtual = []
        self.chooser = chooser
        self.sut_files = frozenset(sut_files)
        self.max_steps = max_steps
        self.steps = 0
        self.cur = None
        self.aborted = False
        self.outcome = None          # "done" | ("deadlock", [...]) | ("budget",)
        self.finished = threading.Event()
        self.trace = []              # (task name, primitive op) events: the interleaving signature
        self.by_thread = {}
        self.nproc = 0
        self.recorded = []           # (step, k) for every decision that was not the base policy's first choice
        self.nopts = []              # number of options at each decision (for sweeps)
        self.main_task = None
        self.shared_steps = []
        self._mark_shared = False

    # ------------------------------------------------------------------ task side
    def me(self):
        return self.by_thread.get(threading.get_ident())

    def _tracer(self, frame, event, arg):
        if frame.f_code.co_filename in self.sut_files:
            return self._line_tracer
        return None

    def _line_tracer(self, frame, event, arg):
        if event == "line":
            self.yield_point()
        return self._line_tracer

    def yield_point(self, pred=None, what=None, timed=False, shared=False):
        t = self.by_thread.get(threading.get_ident())
        if t is None:
            return
        if self.aborted:
            raise Abort()
        if shared:
            self._mark_shared = True
        if what is not None:
            self.trace.append((t.index, what))
        if pred is not None:
            t.blocked_on = what
            f = sys._getframe(1)
            while f is not None and f.f_code.co_filename not in self.sut_files:
                f = f.f_back
            t.where = (f.f_code.co_name, f.f_lineno) if f is not None else None
        t.waiting = pred
        t.timed = timed
        self._switch(t)

    def sleep(self, n, what="sleep"):
        """let n scheduler steps pass (time passes at once if nothing else can run)"""
        mark = self.steps + n
        self.yield_point(lambda: self.steps >= mark, what=what, timed=True)

    def spawn(self, fn, name, proc=None, kind="thread"):
        if proc is None:
            self.nproc += 1
            proc = self.nproc
        t = Task(self, fn, name, proc, kind)
        self.tasks.append(t)
        _ORIG.get("tstart", threading.Thread.start)(t.thread)
        self.by_thread[t.thread.ident] = t
        return t

    # ------------------------------------------------------------------ the scheduling decision (runs in the yielding thread)
    def _switch(self, t):
        while True:
            if self.aborted:
                if t.done:
                    return
                raise Abort()
            live = [x for x in self.tasks if not x.done]
            runnable = [x for x in live if x.waiting is None or x.waiting()]
            virt = [v for v in self.virtual if v.enabled()]
            if not runnable and not virt:
                runnable = [x for x in live if x.timed]   # nothing else can move: time passes, timed waits fire
            if not runnable and not virt:
                if not live:
                    self.outcome = "done"
                else:
                    self.outcome = ("deadlock", [(x.name, x.blocked_on, x.where) for x in live])
                self._stop()
                if t.done:
                    return
                raise Abort()
            self.steps += 1
            if self._mark_shared:
                # this decision is taken right before an access to state shared between threads (see poolsim.traced_class)
                self.shared_steps.append(self.steps)
                self._mark_shared = False
            if self.steps > self.max_steps:
                # Budget exhausted. One situation is not a matter of budget: for the last >= 15 000 steps a single task has been
                # running (polling with timeouts) while every other live task is blocked on a condition that only another task
                # could make true. Nothing can change any more; it is reported like a deadlock, with the poller's position.
                others = [x for x in live if x is not t]
                if others and all(x.waiting is not None and not x.timed and not x.waiting() and x.last_step < self.steps - 15000 for x in others) \
                        and not virt:
                    f = sys._getframe(1)
                    while f is not None and f.f_code.co_filename not in self.sut_files:
                        f = f.f_back
                    where = (f.f_code.co_name, f.f_lineno) if f is not None else None
                    self.outcome = ("deadlock", [(t.name, "polls-forever(%s)" % (t.blocked_on or "?"), where)] +
                                    [(x.name, x.blocked_on, x.where) for x in others])
                    self._stop()
                    if t.done:
                        return
                    raise Abort()
                self.outcome = ("budget",)
                self._stop()
                if t.done:
                    return
                raise Abort()
            pick = self.chooser(self, runnable, virt)
            if not isinstance(pick, Task):
                pick.step()
                continue
            pick.waiting = None
            pick.timed = False
            pick.last_step = self.steps
            self.cur = pick
            if pick is t:
                return
            pick.sem.release()
            if t.done:
                return
            t.sem.acquire()
            if self.aborted:
                raise Abort()
            return

    def _stop(self):
        self.aborted = True
        self.finished.set()

    # ------------------------------------------------------------------ controller side
    def run(self, main_fn, wall_guard=120.0):
        """runs main_fn as task 'consumer' and everything it spawns until all tasks are done, a deadlock or the step budget"""
        if Sched.current is not None:
            raise RuntimeError("nested scheduler run")
        Sched.current = self
        try:
            self.main_task = self.spawn(main_fn, "consumer", proc=0, kind="main")
            self.cur = self.main_task
            self.main_task.sem.release()
            ok = self.finished.wait(wall_guard)
            if not ok:
                self.outcome = ("wall-guard",)
        finally:
            self.aborted = True
            for x in self.tasks:
                x.sem.release()
            stuck = []
            for x in self.tasks:
                _ORIG.get("tjoin", threading.Thread.join)(x.thread, 5)
                if x.thread.is_alive():
                    stuck.append(x.name)
            Sched.current = None
            if stuck and self.outcome != ("wall-guard",):
                self.outcome = ("teardown-stuck", stuck)
        return self.outcome

    def signature(self):
        import hashlib
        h = hashlib.blake2b(digest_size=8)
        for a, b in self.trace:
            h.update(("%d:%s;" % (a, b)).encode())
        return h.hexdigest()


def S():
    return Sched.current
