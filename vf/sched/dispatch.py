"""Dispatching wrappers on threading.Thread and multiprocessing BaseProcess: when called from a task of the active scheduler,
start/join/exitcode/is_alive operate on simulated tasks (processes on a *fork copy* of the object); otherwise they fall
through to the original behaviour. Plus the generic module-namespace patcher."""
import copy
import threading
import multiprocessing
import queue as pyqueue
import types
from multiprocessing.process import BaseProcess

from . import core
from .core import S, _ORIG
from . import prims


def fork_copy(obj):
    """fork semantics for a process object: every user attribute deep-copied (stand-ins and anything `Shared` stay shared by
    identity); BaseProcess' own bookkeeping fields copied shallowly (its auth key refuses pickling/deep copies)"""
    child = copy.copy(obj)
    internal = set(vars(BaseProcess(target=None)))
    memo = {}
    for k, v in vars(obj).items():
        if k in internal or k == "_sim_task":
            continue
        try:
            child.__dict__[k] = copy.deepcopy(v, memo)
        except Exception:  # noqa: things that cannot be copied (open files, locks) are shared, as an inherited descriptor would be
            child.__dict__[k] = v
    return child


def _in_sim():
    s = S()
    if s is None:
        return None
    if s.me() is None:
        return None
    return s


def install():
    if _ORIG:
        return
    _ORIG["tstart"], _ORIG["tjoin"], _ORIG["talive"] = threading.Thread.start, threading.Thread.join, threading.Thread.is_alive
    _ORIG["pstart"], _ORIG["pjoin"], _ORIG["palive"] = BaseProcess.start, BaseProcess.join, BaseProcess.is_alive
    _ORIG["pexit"] = BaseProcess.exitcode
    _ORIG["pterm"] = getattr(BaseProcess, "terminate")
    _ORIG["pclose"] = BaseProcess.close

    def pclose(self):
        t = getattr(self, "_sim_task", None)
        if t is None:
            return _ORIG["pclose"](self)
        s = _in_sim()
        if s is not None:
            s.yield_point(what="process.close")
        if not t.done:
            raise ValueError("Cannot close a process while it is still running. You should first call join() or terminate().")

    def pstart(self):
        s = _in_sim()
        if s is None:
            return _ORIG["pstart"](self)
        child = fork_copy(self)
        s.nproc += 1
        proc = s.nproc

        def body():
            try:
                child.run()
            finally:
                # a real process joins its queue feeder threads at exit: it cannot be over before its items are in the pipe
                if not s.aborted:
                    s.yield_point(lambda: not any(v.q.inflight.get(proc) for v in s.virtual if getattr(v, "proc", None) == proc),
                                  what="process-exit-flush")
        self._sim_task = s.spawn(body, "proc%d:%s" % (proc, type(self).__name__), proc=proc, kind="process")
        self._sim_child = child
        s.yield_point(what="process.start")

    def pjoin(self, timeout=None):
        s = _in_sim()
        t = getattr(self, "_sim_task", None)
        if s is None or t is None:
            return _ORIG["pjoin"](self, timeout)
        s.yield_point(what="process.join")
        prims._timed_wait(s, lambda: t.done, "process.join", True, timeout)

    def palive(self):
        t = getattr(self, "_sim_task", None)
        if t is None:
            return _ORIG["palive"](self)
        s = _in_sim()
        if s is not None:
            s.yield_point(what="process.is_alive")
        return not t.done

    def pexit(self):
        t = getattr(self, "_sim_task", None)
        if t is None:
            return _ORIG["pexit"].fget(self)
        s = _in_sim()
        if s is not None:
            s.yield_point(what="process.exitcode")
        return None if not t.done else (0 if t.exc is None else 1)

    def tstart(self):
        s = _in_sim()
        if s is None:
            return _ORIG["tstart"](self)
        self._sim_task = s.spawn(self.run, "thread:%s" % type(self).__name__, proc=s.me().proc, kind="thread")
        s.yield_point(what="thread.start")

    def tjoin(self, timeout=None):
        s = _in_sim()
        t = getattr(self, "_sim_task", None)
        if s is None or t is None:
            return _ORIG["tjoin"](self, timeout)
        s.yield_point(what="thread.join")
        prims._timed_wait(s, lambda: t.done, "thread.join", True, timeout)

    def talive(self):
        t = getattr(self, "_sim_task", None)
        if t is None:
            return _ORIG["talive"](self)
        return not t.done

    BaseProcess.start, BaseProcess.join, BaseProcess.is_alive = pstart, pjoin, palive
    BaseProcess.exitcode = property(pexit)
    BaseProcess.close = pclose
    threading.Thread.start, threading.Thread.join, threading.Thread.is_alive = tstart, tjoin, talive


class SimThreadingShim(types.SimpleNamespace):
    pass


def threading_shim():
    """replacement for a module-level `threading` name inside a file under test"""
    return types.SimpleNamespace(Event=lambda: prims.SimEvent("thr-event"), Lock=lambda: prims.SimLock("thr-lock"),
                                 RLock=lambda: prims.SimRLock("thr-rlock"), Thread=threading.Thread,
                                 current_thread=threading.current_thread, get_ident=threading.get_ident)


def multiprocessing_shim(ctx):
    return types.SimpleNamespace(Value=ctx.Value, RLock=ctx.RLock, Lock=ctx.Lock, Event=ctx.Event, Queue=ctx.Queue,
                                 Manager=ctx.Manager, get_context=lambda *a: ctx, cpu_count=multiprocessing.cpu_count,
                                 Process=multiprocessing.Process, current_process=multiprocessing.current_process)


class Patch:
    """module-namespace patching for the duration of one case; a name that has disappeared is a harness error"""

    def __init__(self):
        self.saved = []

    def set(self, module, name, value, required=True):
        from ..common import HarnessError
        if not hasattr(module, name):
            if required:
                raise HarnessError("%s.%s no longer exists (refactored?) - the harness must be adapted" % (module.__name__, name))
            return False
        self.saved.append((module, name, getattr(module, name)))
        setattr(module, name, value)
        return True

    def undo(self):
        for module, name, old in reversed(self.saved):
            setattr(module, name, old)
        self.saved = []

    def __enter__(self):
        return self

    def __exit__(self, *a):
        self.undo()
        return False
