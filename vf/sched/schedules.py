"""Schedules are data. Three generator shapes (deviations from a base policy, PCT-style priorities, seeded sticky walk) all
reduce, after a run, to the same replayable form: base policy + list of (step, k) deviations, which is what ddmin minimises
and what replay files contain.

Base order at a decision: ["spawned-first": tasks spawned since the last decision first], then the current task if it can
continue, then the other runnable tasks rotated by the pick rule, then enabled virtual steps (queue deliveries).
k = 0 is the base policy's choice; a deviation [step, k] takes the k-th entry of that order instead.
"""
import random


def base_order(s, runnable, virt, spec, state):
    order = []
    if spec.get("base", "spawned-first") == "spawned-first":
        n0 = state.get("ntasks", 0)
        if len(s.tasks) > n0:
            new = [t for t in s.tasks[n0:] if t in runnable]
            order.extend(new)
    state["ntasks"] = len(s.tasks)
    if s.cur in runnable and s.cur not in order:
        order.append(s.cur)
    rest = [t for t in runnable if t not in order]
    pick = spec.get("pick", "lowest")
    if pick == "highest":
        rest.reverse()
    elif pick == "rr" and rest:
        r = state.get("rr", 0) % len(rest)
        state["rr"] = state.get("rr", 0) + 1
        rest = rest[r:] + rest[:r]
    if spec.get("deliver", "late") == "early":
        return list(virt) + order + rest
    return order + rest + list(virt)


def make_chooser(spec):
    """spec: {"kind": "dev"|"pct"|"walk", "base":..., "pick":..., "deliver":..., "dev": [[step,k],...], ...}"""
    kind = spec.get("kind", "dev")
    state = {}
    dev = {int(a): int(b) for a, b in spec.get("dev", [])}
    rng = random.Random(spec.get("seed", 0)) if kind == "walk" else None
    stick = spec.get("stick", 80)
    walk_len = spec.get("len", 400)
    prio = list(spec.get("prio", []))
    changes = set(spec.get("changes", []))

    def choose(s, runnable, virt):
        order = base_order(s, runnable, virt, spec, state)
        step = s.steps
        k = 0
        if kind == "dev":
            k = dev.get(step, 0) % len(order)
        elif kind == "walk":
            if step <= walk_len:
                cur_ok = s.cur in runnable
                # right before an access to shared state (gran: attr) a switch is much more likely: that is where atomicity breaks
                at_shared = bool(s.shared_steps) and s.shared_steps[-1] == step
                if cur_ok and rng.randrange(100) < (min(stick, 50) if at_shared else stick):
                    k = order.index(s.cur)
                else:
                    k = rng.randrange(len(order))
        elif kind == "pct":
            # priorities by task index (virtual steps have the priority of slot 0 rotated); change points demote the current task
            def pr(x):
                i = getattr(x, "index", None)
                if i is None:
                    return prio[(len(prio) - 1) % len(prio)] if prio else 0
                d = state.setdefault("demoted", {})
                if i in d:
                    return d[i]
                return prio[i % len(prio)] if prio else 0
            if step in changes and s.cur is not None:
                state.setdefault("demoted", {})[s.cur.index] = -step
            best = max(range(len(order)), key=lambda j: (pr(order[j]), -j))
            k = best
        s.nopts.append(len(order))
        if k:
            s.recorded.append([step, k])
        return order[k]

    return choose


def to_dev(spec, recorded):
    """the explicit, replayable form of whatever schedule was run"""
    return {"kind": "dev", "base": spec.get("base", "spawned-first"), "pick": spec.get("pick", "lowest"),
            "deliver": spec.get("deliver", "late"), "gran": spec.get("gran", "line"), "dev": [list(x) for x in recorded]}


def strategy(max_dev=6, walk=True, pct=True, max_step=600):
    from hypothesis import strategies as st
    common = {"base": st.sampled_from(["spawned-first", "continue"]), "pick": st.sampled_from(["lowest", "highest", "rr"]),
              "deliver": st.sampled_from(["late", "late", "early"]), "gran": st.sampled_from(["line", "line", "attr"])}
    # runs have 100..5000 steps depending on the configuration: deviation points are drawn at three scales
    step = st.one_of(st.integers(1, max(50, max_step // 3)), st.integers(1, max_step), st.integers(1, 5 * max_step))
    devs = st.fixed_dictionaries(dict(common, kind=st.just("dev"),
                                      dev=st.lists(st.tuples(step, st.integers(1, 4)).map(list), max_size=max_dev)))
    shapes = [devs, devs]
    if walk:
        shapes.append(st.fixed_dictionaries(dict(common, kind=st.just("walk"), seed=st.integers(0, 2 ** 30), stick=st.sampled_from([50, 80, 95]),
                                                 len=st.sampled_from([50, 200, 600, 2000]))))
    if pct:
        shapes.append(st.fixed_dictionaries(dict(common, kind=st.just("pct"), prio=st.permutations(list(range(8))),
                                                 changes=st.lists(step, max_size=3))))
    return st.one_of(*shapes)
