"""E3: real forked processes advanced one low-level I/O operation at a time (DESIGN.md §3 E3).

windpyutils.files resolves `open` and `mmap` through its module globals, so the harness binds proxies there whose seek /
readline / read call a *turn hook* first. In every participant the hook reports 'at hook' to the controller over a pipe and
blocks until it is granted a turn; the controller grants turns according to a generated schedule and so owns the interleaving
of seeks and reads across processes. Children are created with os.fork() directly, return everything they read over a result
pipe and leave with os._exit.
"""
import builtins
import json
import mmap as real_mmap
import os
import select
import signal
import threading
import types

import windpyutils.files as wf

from .common import Inconclusive

real_open = builtins.open


class Gate:
    def __init__(self):
        self.r_ctl, self.w_ctl = os.pipe()
        self.r_evt, self.w_evt = os.pipe()
        self.r_res, self.w_res = os.pipe()
        self.born = None       # (r, w): written once, right after the participant's first event (used for a grandchild)
        self.born_sent = False

    def close(self):
        for fd in (self.r_ctl, self.w_ctl, self.r_evt, self.w_evt, self.r_res, self.w_res) + (tuple(self.born) if self.born else ()):
            try:
                os.close(fd)
            except OSError:
                pass


_local = threading.local()
ME = None   # in a forked participant: its Gate; in the parent's participant thread: via _local


def my_gate():
    return ME if ME is not None else getattr(_local, "gate", None)


def hook(kind):
    g = my_gate()
    if g is None:
        return
    os.write(g.w_evt, kind)
    if g.born is not None and not g.born_sent:
        g.born_sent = True
        os.write(g.born[1], b"B")
    os.read(g.r_ctl, 1)


class FileProxy:
    def __init__(self, f):
        self._f = f

    def seek(self, *a):
        hook(b"S")
        return self._f.seek(*a)

    def readline(self, *a):
        hook(b"R")
        return self._f.readline(*a)

    def read(self, *a):
        hook(b"R")
        return self._f.read(*a)

    def __getattr__(self, n):
        return getattr(self._f, n)

    def __enter__(self):
        return self

    def __exit__(self, *a):
        self._f.close()

    def __iter__(self):
        return iter(self._f)


def install():
    wf.open = lambda *a, **k: FileProxy(real_open(*a, **k))
    wf.mmap = types.SimpleNamespace(mmap=lambda *a, **k: FileProxy(real_mmap.mmap(*a, **k)), ACCESS_READ=real_mmap.ACCESS_READ)


def uninstall():
    if "open" in vars(wf):
        del wf.open
    wf.mmap = real_mmap


_HELD = []


def do_read(obj, k):
    """one access: obj[k], or ["iter", n] = the first n items of a fresh iteration, or ["slice", a, b] = obj[a:b]"""
    if isinstance(k, list):
        if k[0] == "open":
            obj.open()      # documented as an empty operation on an object that is already open
            return "opened"
        if k[0] == "nofd":
            # this (forked) process runs out of file descriptors: every slot below its (lowered) soft limit is taken. Closing a
            # descriptor still frees a slot, so "close the inherited handle, then open an own one" keeps working
            import resource
            soft, hard = resource.getrlimit(resource.RLIMIT_NOFILE)
            top = max(int(x) for x in os.listdir("/proc/self/fd")) + 12
            resource.setrlimit(resource.RLIMIT_NOFILE, (min(top, soft), hard))
            try:
                while True:
                    _HELD.append(os.open(os.devnull, os.O_RDONLY))
            except OSError:
                pass
            return "nofd"
        if k[0] == "other":
            return obj.b[k[1]]      # a read through the second object that was opened before the fork (props/c18.Pair)
        if k[0] == "iter":
            import itertools
            return list(itertools.islice(iter(obj), k[1]))
        if k[0] == "slice":
            return obj[k[1]:k[2]]
    return obj[k]


def _body(gate, obj, prog, after_first=None):
    out = []
    for n, k in enumerate(prog):
        try:
            out.append(do_read(obj, k))
        except Exception as e:  # noqa
            out.append("EXC:" + repr(e))
        if n == 0 and after_first is not None:
            try:
                out.append({"probe": after_first(obj)})
            except Exception as e:  # noqa
                out.append({"probe": "EXC:" + repr(e)})
    os.write(gate.w_res, json.dumps(out).encode() + b"\n")
    os.write(gate.w_evt, b"D")


def _wait(fd, what, timeout=float(os.environ.get("VF_XPROC_TIMEOUT", "20"))):
    r, _, _ = select.select([fd], [], [], timeout)
    if not r:
        raise Inconclusive("no event from a participant within %d s (%s)" % (timeout, what))
    return os.read(fd, 1)


def run(make_obj, progs, schedule, parent_prog=None, parent_first_key=None, grand=None, probe=None):
    """progs: programmes of the children; grand: (child index, programme) -> that child forks a grandchild after its first
    read; probe: optional callable(obj) run in each child right after its first read (file-description identity test).
    Returns (results per participant, parent's read after everything, trace of (participant, op))."""
    global ME
    install()
    pids = []
    gates = []
    th = None
    try:
        obj = make_obj()
        obj.open()
        if parent_first_key is not None:
            _ = obj[parent_first_key]
        gates = [Gate() for _ in progs]
        ggate = Gate() if grand is not None else None
        if ggate is not None:
            ggate.born = os.pipe()
        for ci, (g, prog) in enumerate(zip(gates, progs)):
            pid = os.fork()
            if pid == 0:
                try:
                    ME = g
                    if grand is not None and grand[0] == ci:
                        def fork_grand(o, _done=[False]):
                            global ME
                            gp = os.fork()
                            if gp == 0:
                                try:
                                    ME = ggate
                                    _body(ggate, o, grand[1])
                                finally:
                                    os._exit(0)
                            # the grandchild's first event is in the controller's pipe before this child goes on, so the
                            # controller sees it deterministically together with this child's next event
                            select.select([ggate.born[0]], [], [], 30)
                            return None
                        # first read, then fork the grandchild, then the rest
                        out = []
                        try:
                            out.append(do_read(obj, prog[0]))
                        except Exception as e:  # noqa
                            out.append("EXC:" + repr(e))
                        fork_grand(obj)
                        for k in prog[1:]:
                            try:
                                out.append(do_read(obj, k))
                            except Exception as e:  # noqa
                                out.append("EXC:" + repr(e))
                        os.write(g.w_res, json.dumps(out).encode() + b"\n")
                        os.write(g.w_evt, b"D")
                    else:
                        _body(g, obj, prog, probe)
                finally:
                    os._exit(0)
            pids.append(pid)
        parts = list(gates)
        if ggate is not None:
            parts.append(ggate)
        if parent_prog is not None:
            pg = Gate()
            gates.append(pg)
            parts.append(pg)

            def pt():
                _local.gate = pg
                _body(pg, obj, parent_prog)
            th = threading.Thread(target=pt, daemon=True)
            th.start()
        state = {}
        gidx = parts.index(ggate) if ggate is not None else None
        for i in range(len(parts)):
            if i == gidx:
                state[i] = "unborn"
                continue
            b = _wait(parts[i].r_evt, "initial")
            state[i] = "done" if b == b"D" else b
        k = 0
        trace = []

        def poll_grandchild():
            if gidx is not None and state[gidx] == "unborn":
                r, _, _ = select.select([ggate.r_evt], [], [], 0)
                if r:
                    b2 = os.read(ggate.r_evt, 1)
                    state[gidx] = "done" if b2 == b"D" else b2
        while any(s not in ("done", "unborn") for s in state.values()) or (gidx is not None and state[gidx] == "unborn"):
            poll_grandchild()
            ready = [i for i, s in state.items() if s not in ("done", "unborn")]
            if not ready:
                # only the unborn grandchild is left: its parent is done, so its first event must arrive
                b = _wait(ggate.r_evt, "grandchild first event")
                state[gidx] = "done" if b == b"D" else b
                continue
            i = ready[schedule[k] % len(ready)] if k < len(schedule) else ready[k % len(ready)]
            k += 1
            trace.append((i, state[i].decode()))
            os.write(parts[i].w_ctl, b"G")
            b = _wait(parts[i].r_evt, "after grant")
            state[i] = "done" if b == b"D" else b
        res = []
        for g in parts:
            data = b""
            while not data.endswith(b"\n"):
                r, _, _ = select.select([g.r_res], [], [], 60)
                if not r:
                    raise Inconclusive("no result from a participant")
                data += os.read(g.r_res, 1 << 20)
            res.append(json.loads(data))
        for pid in pids:
            os.waitpid(pid, 0)
        pids = []
        if th is not None:
            th.join(30)
        after = obj[parent_first_key] if parent_first_key is not None else None
        obj.close()
        return res, after, trace
    finally:
        for pid in pids:
            try:
                os.kill(pid, signal.SIGKILL)
                os.waitpid(pid, 0)
            except Exception:  # noqa
                pass
        for g in gates:
            g.close()
        if grand is not None and ggate is not None:
            ggate.close()
        uninstall()


def drive(parts, schedule):
    """the controller loop for participants that all exist from the start: grants single steps until everyone is done"""
    state = {}
    for i in range(len(parts)):
        b = _wait(parts[i].r_evt, "initial")
        state[i] = "done" if b == b"D" else b
    k = 0
    trace = []
    while any(s != "done" for s in state.values()):
        ready = [i for i, s in state.items() if s != "done"]
        i = ready[schedule[k] % len(ready)] if k < len(schedule) else ready[k % len(ready)]
        k += 1
        trace.append((i, state[i].decode()))
        os.write(parts[i].w_ctl, b"G")
        b = _wait(parts[i].r_evt, "after grant")
        state[i] = "done" if b == b"D" else b
    return trace


def read_result(gate, timeout=60):
    data = b""
    while not data.endswith(b"\n"):
        r, _, _ = select.select([gate.r_res], [], [], timeout)
        if not r:
            raise Inconclusive("no result from a participant")
        data += os.read(gate.r_res, 1 << 20)
    return json.loads(data)
